"""Entry point: check.py <ID> [--tier quick|thorough] [--replay file] [--only glob] [--jobs n]"""
import argparse
import os
import sys

HERE = os.path.dirname(os.path.abspath(__file__))
sys.path.insert(0, HERE)
sys.dont_write_bytecode = True


def main():
    ap = argparse.ArgumentParser()
    ap.add_argument('prop')
    ap.add_argument('--tier', default=os.environ.get('VERIF_TIER', 'quick'))
    ap.add_argument('--replay')
    ap.add_argument('--only')
    ap.add_argument('--jobs', type=int)
    a = ap.parse_args()
    from symx import runner
    modname = 'harness.%s' % a.prop.lower()
    if a.replay:
        sys.exit(runner.replay_file(modname, a.replay))
    sys.exit(runner.main(a.prop, modname, a.tier, a.jobs, a.only))


if __name__ == '__main__':
    main()
