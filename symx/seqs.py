"""
symx.seqs -- byte containers that can hold symbolic bytes, and shims for the builtins /
stdlib entry points through which pcbasic moves bytes (bytes, bytearray, memoryview, struct,
int, ord, chr, isinstance, min, max ...).

Rule: on purely concrete operands every shim returns exactly what the real function returns
(for immutable results: the real type).  Lengths are always concrete.
"""

import builtins
import struct as _struct
import operator
import z3

from . import core
from .core import SInt, SBool, Unsupported, ite, s_and, s_or, s_not, mkbool

_bytes = builtins.bytes
_bytearray = builtins.bytearray
_memoryview = builtins.memoryview
_isinstance = builtins.isinstance
_int = builtins.int
_len = builtins.len


def _norm_byte(x, what='byte'):
    """Check 0 <= x < 256 the way bytes()/bytearray() do and return the item."""
    if _isinstance(x, SBool):
        x = core.as_int(x)
    if _isinstance(x, SInt):
        if x.lo >= 0 and x.hi <= 255:
            return x
        if not s_and(x >= 0, x <= 255):
            raise ValueError('%s must be in range(0, 256)' % what)
        if core._is_int_backend(x):
            return SInt(x.t, 0, 255)
        return SInt(z3.ZeroExt(1, z3.Extract(7, 0, core._fit(x.t, max(x.t.size(), 8)))), 0, 255)
    if not _isinstance(x, _int):
        x = operator.index(x)
    if not 0 <= x <= 255:
        raise ValueError('%s must be in range(0, 256)' % what)
    return _int(x)


def _all_concrete(items):
    for i in items:
        if _isinstance(i, (SInt, SBool)):
            return False
    return True


def _items_of(x):
    """Items (ints / SInts) of any bytes-like, symbolic or real."""
    if _isinstance(x, (SBytes, SByteArray)):
        return list(x._items)
    if _isinstance(x, SView):
        return x._get_items()
    if _isinstance(x, (_bytes, _bytearray, _memoryview)):
        return list(_bytes(x))
    raise TypeError('a bytes-like object is required, not %r' % type(x).__name__)


def is_byteslike(x):
    return _isinstance(x, (SBytes, SByteArray, SView, _bytes, _bytearray, _memoryview))


def mk_bytes(items):
    """Immutable result: real bytes if concrete, SBytes otherwise."""
    if _all_concrete(items):
        return _bytes(items)
    return SBytes(items)


def _eq_items(a, b):
    if _len(a) != _len(b):
        return False
    cs = []
    for x, y in zip(a, b):
        c = (x == y)
        if c is False:
            return False
        if c is not True:
            cs.append(c)
    return s_and(*cs)


def _lt_items(a, b, or_equal=False):
    """Lexicographic a < b (or <=) as a formula, no forking."""
    n = min(_len(a), _len(b))
    if _len(a) == _len(b):
        res = or_equal
    else:
        res = _len(a) < _len(b)
    for i in range(n - 1, -1, -1):
        x, y = a[i], b[i]
        lt, gt = (x < y), (x > y)
        if lt is True:
            res = True
        elif gt is True:
            res = False
        elif lt is False and gt is False:
            pass
        else:
            res = ite(lt, True, ite(gt, False, res))
    return res


class _SeqBase(object):
    """Shared read-only behaviour; subclasses provide _get_items()."""

    __hash__ = None

    def __len__(self):
        return _len(self._get_items())

    def __bool__(self):
        return _len(self._get_items()) > 0

    def __iter__(self):
        return iter(self._get_items())

    def _cmp_other(self, o):
        if is_byteslike(o):
            return _items_of(o)
        return None

    def __eq__(self, o):
        oi = self._cmp_other(o)
        if oi is None:
            return False
        return _eq_items(self._get_items(), oi)

    def __ne__(self, o):
        return s_not(self.__eq__(o))

    def __lt__(self, o):
        oi = self._cmp_other(o)
        if oi is None:
            return NotImplemented
        return _lt_items(self._get_items(), oi)

    def __le__(self, o):
        oi = self._cmp_other(o)
        if oi is None:
            return NotImplemented
        return _lt_items(self._get_items(), oi, True)

    def __gt__(self, o):
        oi = self._cmp_other(o)
        if oi is None:
            return NotImplemented
        return _lt_items(oi, self._get_items())

    def __ge__(self, o):
        oi = self._cmp_other(o)
        if oi is None:
            return NotImplemented
        return _lt_items(oi, self._get_items(), True)

    def __contains__(self, x):
        return bool(sx_in(x, self))

    # -- bytes API (results immutable -> mk_bytes, except for SByteArray overrides) -----

    def _mk(self, items):
        return mk_bytes(items)

    def tobytes(self):
        return mk_bytes(self._get_items())

    def tolist(self):
        return list(self._get_items())

    def _case(self, up):
        out = []
        for c in self._get_items():
            if _isinstance(c, SInt):
                if up:
                    out.append(ite(s_and(c >= 97, c <= 122), c - 32, c))
                else:
                    out.append(ite(s_and(c >= 65, c <= 90), c + 32, c))
            else:
                out.append(_bytes([c]).upper()[0] if up else _bytes([c]).lower()[0])
        return self._mk(out)

    def upper(self):
        return self._case(True)

    def lower(self):
        return self._case(False)

    def _strip(self, chars, left, right):
        items = self._get_items()
        if chars is None:
            chars = b' \t\n\r\x0b\x0c'
        a, b = 0, _len(items)
        if left:
            while a < b and sx_in(items[a], chars):
                a += 1
        if right:
            while b > a and sx_in(items[b - 1], chars):
                b -= 1
        return self._mk(items[a:b])

    def strip(self, chars=None):
        return self._strip(chars, True, True)

    def lstrip(self, chars=None):
        return self._strip(chars, True, False)

    def rstrip(self, chars=None):
        return self._strip(chars, False, True)

    def find(self, sub, start=None, end=None):
        items = self._get_items()
        n = _len(items)
        start, end, _ = slice(start, end).indices(n)
        sub = [_norm_byte(sub)] if _isinstance(sub, (_int, SInt)) else _items_of(sub)
        k = _len(sub)
        for i in range(start, end - k + 1):
            if _eq_items(items[i:i + k], sub):
                return i
        return -1

    def rfind(self, sub, start=None, end=None):
        items = self._get_items()
        n = _len(items)
        start, end, _ = slice(start, end).indices(n)
        sub = [_norm_byte(sub)] if _isinstance(sub, (_int, SInt)) else _items_of(sub)
        k = _len(sub)
        for i in range(end - k, start - 1, -1):
            if _eq_items(items[i:i + k], sub):
                return i
        return -1

    def index(self, sub, start=None, end=None):
        r = self.find(sub, start, end)
        if r < 0:
            raise ValueError('subsection not found')
        return r

    def rindex(self, sub, start=None, end=None):
        r = self.rfind(sub, start, end)
        if r < 0:
            raise ValueError('subsection not found')
        return r

    def count(self, sub):
        items = self._get_items()
        sub = [_norm_byte(sub)] if _isinstance(sub, (_int, SInt)) else _items_of(sub)
        k = _len(sub)
        i, c = 0, 0
        while i + k <= _len(items):
            if _eq_items(items[i:i + k], sub):
                c += 1
                i += max(k, 1)
            else:
                i += 1
        return c

    def startswith(self, prefix):
        if _isinstance(prefix, tuple):
            return any(self.startswith(p) for p in prefix)
        p = _items_of(prefix)
        items = self._get_items()
        if _len(p) > _len(items):
            return False
        return bool(_eq_items(items[:_len(p)], p))

    def endswith(self, suffix):
        if _isinstance(suffix, tuple):
            return any(self.endswith(p) for p in suffix)
        p = _items_of(suffix)
        items = self._get_items()
        if _len(p) > _len(items):
            return False
        return bool(_eq_items(items[_len(items) - _len(p):], p))

    def split(self, sep=None, maxsplit=-1):
        items = self._get_items()
        if sep is None:
            raise Unsupported('split() on whitespace with symbolic bytes')
        sep = _items_of(sep)
        k = _len(sep)
        out, cur, i = [], [], 0
        while i < _len(items):
            if (maxsplit < 0 or _len(out) < maxsplit) and i + k <= _len(items) \
                    and _eq_items(items[i:i + k], sep):
                out.append(self._mk(cur))
                cur = []
                i += k
            else:
                cur.append(items[i])
                i += 1
        out.append(self._mk(cur))
        return out

    def partition(self, sep):
        i = self.find(sep)
        items = self._get_items()
        if i < 0:
            return self._mk(items), self._mk([]), self._mk([])
        k = _len(_items_of(sep))
        return self._mk(items[:i]), self._mk(items[i:i + k]), self._mk(items[i + k:])

    def replace(self, old, new, count=-1):
        items = self._get_items()
        old, new = _items_of(old), _items_of(new)
        k = _len(old)
        if k == 0:
            raise Unsupported('replace of empty pattern')
        out, i, c = [], 0, 0
        while i < _len(items):
            if (count < 0 or c < count) and i + k <= _len(items) and _eq_items(items[i:i + k], old):
                out.extend(new)
                i += k
                c += 1
            else:
                out.append(items[i])
                i += 1
        return self._mk(out)

    def ljust(self, width, fill=b' '):
        items = self._get_items()
        f = _items_of(fill)
        return self._mk(items + f * max(0, operator.index(width) - _len(items)))

    def rjust(self, width, fill=b' '):
        items = self._get_items()
        f = _items_of(fill)
        return self._mk(f * max(0, operator.index(width) - _len(items)) + items)

    def zfill(self, width):
        return self.rjust(width, b'0')

    def join(self, parts):
        sep = self._get_items()
        out = []
        for i, p in enumerate(parts):
            if i:
                out.extend(sep)
            out.extend(_items_of(p))
        return self._mk(out)

    def isdigit(self):
        items = self._get_items()
        if not items:
            return False
        return bool(s_and(*[s_and(c >= 48, c <= 57) for c in items]))

    def isalpha(self):
        items = self._get_items()
        if not items:
            return False
        return bool(s_and(*[s_or(s_and(c >= 65, c <= 90), s_and(c >= 97, c <= 122)) for c in items]))

    def isalnum(self):
        items = self._get_items()
        if not items:
            return False
        return bool(s_and(*[s_or(s_and(c >= 48, c <= 57), s_and(c >= 65, c <= 90),
                                 s_and(c >= 97, c <= 122)) for c in items]))

    def decode(self, encoding='utf-8', errors='strict'):
        items = self._get_items()
        if _all_concrete(items):
            return _bytes(items).decode(encoding, errors)
        raise Unsupported('decode() of symbolic bytes')

    def hex(self):
        items = self._get_items()
        if _all_concrete(items):
            return _bytes(items).hex()
        raise Unsupported('hex() of symbolic bytes')

    def __add__(self, o):
        if not is_byteslike(o):
            return NotImplemented
        return self._mk(self._get_items() + _items_of(o))

    def __radd__(self, o):
        if not is_byteslike(o):
            return NotImplemented
        if _isinstance(o, (_bytearray, SByteArray)):
            return SByteArray(_items_of(o) + self._get_items())
        return mk_bytes(_items_of(o) + self._get_items())

    def __mul__(self, n):
        return self._mk(self._get_items() * operator.index(n))

    __rmul__ = __mul__

    def __mod__(self, args):
        return sx_mod(self, args)

    def __repr__(self):
        return '%s(%r)' % (type(self).__name__, self._get_items())

    def __buffer__(self, flags):
        items = self._get_items()
        if _all_concrete(items) and not (flags & 1):
            return _memoryview(_bytes(items))
        raise Unsupported('C-level buffer access to %s' % type(self).__name__)


class SBytes(_SeqBase):
    """Immutable bytes with symbolic content."""

    def __init__(self, items):
        self._items = tuple(items)

    def __hash__(self):
        # used as a dict key / set member: enumerate the feasible contents (one path each), so
        # that value-based lookups stay exact; long symbolic strings hit the fan-out bound
        return hash(_bytes(operator.index(i) for i in self._items))

    def _get_items(self):
        return list(self._items)

    def __len__(self):
        return _len(self._items)

    def __getitem__(self, i):
        if _isinstance(i, slice):
            return mk_bytes(self._items[i])
        return self._items[operator.index(i)]


class SByteArray(_SeqBase):
    """Mutable byte array that may hold symbolic bytes."""

    def __init__(self, items=()):
        self._items = list(items)

    def _get_items(self):
        return list(self._items)

    def _mk(self, items):
        return SByteArray(items)

    def __len__(self):
        return _len(self._items)

    def __getitem__(self, i):
        if _isinstance(i, slice):
            return SByteArray(self._items[i])
        return self._items[operator.index(i)]

    def __setitem__(self, i, v):
        if _isinstance(i, slice):
            if _isinstance(v, (_int, SInt)):
                raise TypeError('can assign only bytes, buffers, or iterables of ints')
            vals = [_norm_byte(x) for x in (_items_of(v) if is_byteslike(v) else list(v))]
            self._items[i] = vals
        else:
            self._items[operator.index(i)] = _norm_byte(v)

    def __delitem__(self, i):
        del self._items[i]

    def __iadd__(self, o):
        self._items.extend(_items_of(o))
        return self

    def __imul__(self, n):
        self._items *= operator.index(n)
        return self

    def append(self, x):
        self._items.append(_norm_byte(x))

    def extend(self, xs):
        self._items.extend(_norm_byte(x) for x in (_items_of(xs) if is_byteslike(xs) else xs))

    def insert(self, i, x):
        self._items.insert(i, _norm_byte(x))

    def pop(self, i=-1):
        return self._items.pop(i)

    def clear(self):
        del self._items[:]

    def reverse(self):
        self._items.reverse()

    def copy(self):
        return SByteArray(self._items)

    def __getattr__(self, name):
        # anything else: concrete only, run on a real bytearray and write back
        if name.startswith('__'):
            raise AttributeError(name)
        if not hasattr(_bytearray, name):
            raise AttributeError(name)
        if not _all_concrete(self._items):
            raise Unsupported('bytearray.%s on symbolic content' % name)

        def call(*a, **k):
            real = _bytearray(self._items)
            r = getattr(real, name)(*a, **k)
            self._items[:] = list(real)
            if _isinstance(r, _bytearray):
                return SByteArray(list(r))
            return r
        return call


class SView(_SeqBase):
    """memoryview over an SByteArray (aliases its base)."""

    def __init__(self, base, start=0, stop=None):
        self._base = base
        self._start = start
        self._stop = _len(base._items) if stop is None else stop
        self.readonly = False
        self.format = 'B'
        self.itemsize = 1
        self.ndim = 1

    @property
    def obj(self):
        return self._base

    @property
    def nbytes(self):
        return self._stop - self._start

    def _get_items(self):
        return self._base._items[self._start:self._stop]

    def __len__(self):
        return self._stop - self._start

    def __getitem__(self, i):
        n = self._stop - self._start
        if _isinstance(i, slice):
            a, b, st = i.indices(n)
            if st != 1:
                raise Unsupported('strided memoryview')
            b = max(a, b)
            return SView(self._base, self._start + a, self._start + b)
        i = operator.index(i)
        if i < 0:
            i += n
        if not 0 <= i < n:
            raise IndexError('index out of bounds on dimension 1')
        return self._base._items[self._start + i]

    def __setitem__(self, i, v):
        n = self._stop - self._start
        if _isinstance(i, slice):
            a, b, st = i.indices(n)
            if st != 1:
                raise Unsupported('strided memoryview')
            b = max(a, b)
            if not is_byteslike(v):
                raise TypeError('a bytes-like object is required')
            vals = _items_of(v)
            if _len(vals) != b - a:
                raise ValueError('memoryview assignment: lvalue and rvalue have different structures')
            self._base._items[self._start + a:self._start + b] = [_norm_byte(x) for x in vals]
        else:
            i = operator.index(i)
            if i < 0:
                i += n
            if not 0 <= i < n:
                raise IndexError('index out of bounds on dimension 1')
            self._base._items[self._start + i] = _norm_byte(v, 'memoryview: value')

    def release(self):
        pass

    def __enter__(self):
        return self

    def __exit__(self, *a):
        pass

    def toreadonly(self):
        return self

    def cast(self, *a):
        raise Unsupported('memoryview.cast')


# ----------------------------------------------------------------------------------------------
# builtin shims

class _ShimMeta(type):
    """Shim classes stand in for builtins inside lifted modules: calling them builds real or
    symbolic objects, isinstance() against them accepts both, other attributes come from
    the real type."""

    def __instancecheck__(cls, inst):
        return _isinstance(inst, cls._real) or _isinstance(inst, cls._sym)

    def __subclasscheck__(cls, sub):
        return issubclass(sub, cls._real) or issubclass(sub, cls._sym)

    def __getattr__(cls, name):
        return getattr(cls._real, name)

    def __eq__(cls, other):
        return other is cls or other is cls._real

    def __ne__(cls, other):
        return not cls.__eq__(other)

    def __hash__(cls):
        return hash(cls._real)

    def __repr__(cls):
        return repr(cls._real)


class sx_bytes(metaclass=_ShimMeta):
    _real = _bytes
    _sym = (SBytes,)

    def __new__(cls, *args, **kw):
        if not args:
            return b''
        x = args[0]
        if _isinstance(x, (SBytes, SByteArray, SView)):
            return mk_bytes(_items_of(x))
        if _isinstance(x, SInt):
            return _bytes(operator.index(x))
        if _isinstance(x, (list, tuple)) or (hasattr(x, '__next__')):
            xs = list(x)
            if _all_concrete(xs):
                return _bytes(xs)
            return SBytes([_norm_byte(i, 'bytes') for i in xs])
        return _bytes(*args, **kw)


class sx_bytearray(metaclass=_ShimMeta):
    _real = _bytearray
    _sym = (SByteArray,)

    def __new__(cls, *args, **kw):
        if not args:
            return SByteArray()
        x = args[0]
        if _isinstance(x, str):
            return SByteArray(list(_bytearray(*args, **kw)))
        if _isinstance(x, (_int, SInt)) and not _isinstance(x, bool):
            return SByteArray([0] * operator.index(x))
        if is_byteslike(x):
            return SByteArray(_items_of(x))
        return SByteArray([_norm_byte(i) for i in x])


class sx_memoryview(metaclass=_ShimMeta):
    _real = _memoryview
    _sym = (SView,)

    def __new__(cls, x):
        if _isinstance(x, SByteArray):
            return SView(x)
        if _isinstance(x, SView):
            return SView(x._base, x._start, x._stop)
        if _isinstance(x, SBytes):
            v = SView(SByteArray(x._items))
            v.readonly = True
            return v
        return _memoryview(x)


_SYMTYPES = (SInt, SBool, SBytes, SByteArray, SView)
_TYPEMAP = {_int: (SInt, SBool), bool: (SBool,), _bytes: (SBytes,), _bytearray: (SByteArray,),
            _memoryview: (SView,), object: _SYMTYPES}
_CONTAINER_MAP = {}


def sx_isinstance(obj, cls):
    if _isinstance(obj, _SYMTYPES):
        classes = cls if _isinstance(cls, tuple) else (cls,)
        for c in classes:
            if _isinstance(c, tuple):
                if sx_isinstance(obj, c):
                    return True
            elif _isinstance(c, _ShimMeta):
                if _isinstance(obj, c._sym):
                    return True
            elif c in _TYPEMAP and _isinstance(obj, _TYPEMAP[c]):
                return True
        return False
    if _isinstance(obj, (SymSet, SymDict)):
        classes = cls if _isinstance(cls, tuple) else (cls,)
        for c in classes:
            if c is set and _isinstance(obj, SymSet):
                return True
            if c is dict and _isinstance(obj, SymDict):
                return True
    return _isinstance(obj, cls)


class sx_int(metaclass=_ShimMeta):
    _real = _int
    _sym = (SInt, SBool)

    def __new__(cls, *args, **kw):
        if not args:
            return _int(**kw)
        x = args[0]
        if _isinstance(x, SInt):
            return x
        if _isinstance(x, SBool):
            return core.as_int(x)
        if _isinstance(x, (SBytes, SByteArray, SView)):
            base = args[1] if _len(args) > 1 else kw.get('base', 10)
            return parse_int(_items_of(x), base)
        if _len(args) > 1 and _isinstance(args[1], SInt):
            return _int(x, operator.index(args[1]))
        return _int(*args, **kw)


def parse_int(items, base):
    """int(bytes, base) on symbolic bytes: same grammar as CPython for ASCII input
    (optional surrounding whitespace, sign, digits with single underscores); ValueError otherwise.
    Base prefixes (0x / 0o / 0b) are accepted when they match the base like CPython does."""
    ws = b' \t\n\r\x0b\x0c'
    a, b = 0, _len(items)
    while a < b and sx_in(items[a], ws):
        a += 1
    while b > a and sx_in(items[b - 1], ws):
        b -= 1
    items = items[a:b]
    neg = False
    if items and sx_in(items[0], b'+-'):
        neg = bool(items[0] == 45)
        items = items[1:]
    if base in (16, 8, 2) and _len(items) >= 2 and bool(items[0] == 48):
        letters = {16: b'xX', 8: b'oO', 2: b'bB'}[base]
        if sx_in(items[1], letters):
            items = items[2:]
            if items and bool(items[0] == 95):
                items = items[1:]
    if not items:
        raise ValueError('invalid literal for int()')
    val = 0
    prev_us = True   # leading underscore not allowed
    for c in items:
        if bool(c == 95):
            if prev_us:
                raise ValueError('invalid literal for int()')
            prev_us = True
            continue
        prev_us = False
        d = _digit_value(c, base)
        val = val * base + d
    if prev_us:
        raise ValueError('invalid literal for int()')
    return -val if neg else val


def _digit_value(c, base):
    if not _isinstance(c, SInt):
        try:
            return _int(_bytes([c]), base) if c != 95 else _raise_value()
        except ValueError:
            raise ValueError('invalid literal for int()')
    isdig = s_and(c >= 48, c <= min(57, 47 + base))
    if base > 10:
        isup = s_and(c >= 65, c <= 54 + base)
        islo = s_and(c >= 97, c <= 86 + base)
    else:
        isup = islo = False
    if not s_or(isdig, isup, islo):
        raise ValueError('invalid literal for int()')
    return ite(isdig, c - 48, ite(isup, c - 55, c - 87))


def _raise_value():
    raise ValueError('invalid literal for int()')


def sx_ord(c):
    if _isinstance(c, (SBytes, SByteArray, SView)):
        if _len(c) != 1:
            raise TypeError('ord() expected a character, but string of length %d found' % _len(c))
        return c[0]
    return builtins.ord(c)


def sx_chr(x):
    if _isinstance(x, SInt):
        return builtins.chr(operator.index(x))
    return builtins.chr(x)


def sx_min(*args, **kw):
    if kw or not any(_isinstance(a, (SInt, SBool)) for a in (args if _len(args) > 1 else ())):
        if _len(args) == 1 and not kw:
            xs = list(args[0])
            if any(_isinstance(a, (SInt, SBool)) for a in xs):
                return core.s_min(xs)
            return builtins.min(xs)
        return builtins.min(*args, **kw)
    return core.s_min(*args)


def sx_max(*args, **kw):
    if kw or not any(_isinstance(a, (SInt, SBool)) for a in (args if _len(args) > 1 else ())):
        if _len(args) == 1 and not kw:
            xs = list(args[0])
            if any(_isinstance(a, (SInt, SBool)) for a in xs):
                return core.s_max(xs)
            return builtins.max(xs)
        return builtins.max(*args, **kw)
    return core.s_max(*args)


def sx_abs(x):
    return builtins.abs(x)


def sx_bool(x=False):
    return builtins.bool(x)


def sx_in(x, container):
    """x in container, returning bool or SBool (never hashes a symbolic value)."""
    if _isinstance(container, (_bytes, _bytearray, SBytes, SByteArray, SView, _memoryview)):
        if _isinstance(x, (_int, SInt)) and not _isinstance(x, bool):
            if not _isinstance(x, SInt) and _isinstance(container, (_bytes, _bytearray, _memoryview)):
                return x in container
            citems = _items_of(container)
            return s_or(*[x == c for c in citems])
        if is_byteslike(x):
            if not _isinstance(x, (SBytes, SByteArray, SView)) and \
                    _isinstance(container, (_bytes, _bytearray)):
                return _bytes(x) in container
            xi = _items_of(x)
            ci = _items_of(container)
            k = _len(xi)
            if k == 0:
                return True
            return s_or(*[_eq_items(ci[i:i + k], xi) for i in range(0, _len(ci) - k + 1)])
        return x in container
    if _isinstance(x, (SInt, SBool, SBytes, SByteArray, SView)):
        if _isinstance(container, (set, frozenset, dict, list, tuple, range)) or \
                hasattr(container, 'keys'):
            if _isinstance(container, range) and _isinstance(x, SInt) and container.step == 1:
                return s_and(x >= container.start, x < container.stop)
            return s_or(*[_sym_eq(x, c) for c in container])
        if hasattr(container, '__sx_contains__'):
            return container.__sx_contains__(x)
        # generators etc
        return s_or(*[_sym_eq(x, c) for c in container])
    if hasattr(container, '__sx_contains__'):
        return container.__sx_contains__(x)
    return x in container


def _sym_eq(a, b):
    if _isinstance(a, (SInt, SBool)):
        if _isinstance(b, (_int, SInt, SBool)):
            return a == b
        return False
    if is_byteslike(a) and is_byteslike(b):
        return _eq_items(_items_of(a), _items_of(b))
    r = (a == b)
    return r


def sx_not_in(x, container):
    return s_not(sx_in(x, container))


def sx_add(a, b):
    if _isinstance(b, (SBytes, SByteArray, SView)) and _isinstance(a, (_bytes, _bytearray)):
        return b.__radd__(a)
    return a + b


def sx_mul(a, b):
    return a * b


def sx_mod(a, b):
    if _isinstance(a, (_bytes, SBytes)):
        args = b if _isinstance(b, tuple) else (b,)
        if _isinstance(a, _bytes) and not any(
                _isinstance(x, (SInt, SBool, SBytes, SByteArray, SView)) for x in args):
            return a % b
        return _format_bytes(_items_of(a), args)
    if _isinstance(a, str):
        args = b if _isinstance(b, tuple) else (b,)
        if any(_isinstance(x, _SYMTYPES) for x in args):
            # only error / debug messages are built this way; not part of any decision
            return '<message with symbolic arguments>'
    return a % b


def int_to_digits(x, base, upper=True):
    """Digits (most significant first) of a non-negative symbolic int; forks on digit count."""
    if not _isinstance(x, SInt):
        s = {10: '%d', 8: '%o', 16: '%X' if upper else '%x'}[base] % x
        return list(s.encode('ascii'))
    # number of digits: fork
    n = 1
    p = base
    while not (x < p):
        n += 1
        p *= base
    out = []
    for k in range(n - 1, -1, -1):
        d = (x // (base ** k)) % base
        if base <= 10:
            out.append(d + 48)
        else:
            out.append(ite(d < 10, d + 48, d + (55 if upper else 87)))
    return out


def _format_bytes(fmt, args):
    out = []
    args = list(args)
    i = 0
    while i < _len(fmt):
        c = fmt[i]
        if c != 37:
            out.append(c)
            i += 1
            continue
        i += 1
        # flags / width (only what pcbasic uses: %d %o %X %x %s %c %02d %03d ...)
        zero = False
        width = 0
        if fmt[i] == 48:
            zero = True
            i += 1
        while 48 <= fmt[i] <= 57:
            width = width * 10 + fmt[i] - 48
            i += 1
        conv = fmt[i]
        i += 1
        if conv == 37:
            out.append(37)
            continue
        a = args.pop(0)
        if conv in (100, 105, 111, 88, 120):     # d i o X x
            base = {100: 10, 105: 10, 111: 8, 88: 16, 120: 16}[conv]
            if _isinstance(a, SBool):
                a = core.as_int(a)
            if _isinstance(a, SInt):
                neg = bool(a < 0)
                digs = int_to_digits(-a if neg else a, base, conv == 88)
            else:
                neg = a < 0
                digs = int_to_digits(abs(a), base, conv == 88)
            pad = max(0, width - _len(digs) - (1 if neg else 0))
            if zero:
                piece = ([45] if neg else []) + [48] * pad + digs
            else:
                piece = [32] * pad + ([45] if neg else []) + digs
            out.extend(piece)
        elif conv in (115, 98):     # s b
            it = _items_of(a)
            out.extend([32] * max(0, width - _len(it)) + it)
        elif conv == 99:       # c
            if is_byteslike(a):
                it = _items_of(a)
            else:
                it = [_norm_byte(a, '%c arg')]
            out.extend(it)
        else:
            raise Unsupported('format conversion %%%s' % chr(conv))
    return mk_bytes(out)


# ----------------------------------------------------------------------------------------------
# sets / dicts keyed by possibly symbolic values (association lists, insertion ordered)

class SymSet(object):
    """set replacement: equality of members is decided symbolically (forks when undetermined)."""

    def __init__(self, items=()):
        self._l = []
        for x in items:
            self.add(x)

    @staticmethod
    def _eq(a, b):
        if _isinstance(a, tuple) and _isinstance(b, tuple):
            if _len(a) != _len(b):
                return False
            return s_and(*[SymSet._eq(x, y) for x, y in zip(a, b)])
        if a is None or b is None:
            return a is b
        return _sym_eq(a, b)

    def _find(self, x):
        for i, y in enumerate(self._l):
            if SymSet._eq(x, y):        # forks when undetermined
                return i
        return -1

    def add(self, x):
        if self._find(x) < 0:
            self._l.append(x)

    def remove(self, x):
        i = self._find(x)
        if i < 0:
            raise KeyError(x)
        del self._l[i]

    def discard(self, x):
        i = self._find(x)
        if i >= 0:
            del self._l[i]

    def pop(self):
        if not self._l:
            raise KeyError('pop from an empty set')
        return self._l.pop()

    def clear(self):
        del self._l[:]

    def copy(self):
        r = SymSet()
        r._l = list(self._l)
        return r

    def update(self, *others):
        for o in others:
            for x in o:
                self.add(x)

    def union(self, *others):
        r = self.copy()
        r.update(*others)
        return r

    def intersection(self, *others):
        r = SymSet()
        for x in self._l:
            if all(SymSet(o)._find(x) >= 0 for o in others):
                r._l.append(x)
        return r

    def difference(self, *others):
        r = SymSet()
        for x in self._l:
            if all(SymSet(o)._find(x) < 0 for o in others):
                r._l.append(x)
        return r

    def issubset(self, other):
        o = other if _isinstance(other, SymSet) else SymSet(other)
        return all(o._find(x) >= 0 for x in self._l)

    def __or__(self, o):
        return self.union(o)

    __ror__ = __or__

    def __and__(self, o):
        return self.intersection(o)

    __rand__ = __and__

    def __sub__(self, o):
        return self.difference(o)

    def __rsub__(self, o):
        return SymSet(o).difference(self)

    def __ior__(self, o):
        self.update(o)
        return self

    def __iter__(self):
        return iter(list(self._l))

    def __len__(self):
        return _len(self._l)

    def __bool__(self):
        return _len(self._l) > 0

    def __contains__(self, x):
        return self._find(x) >= 0

    def __sx_contains__(self, x):
        return s_or(*[SymSet._eq(x, y) for y in self._l])

    def __eq__(self, o):
        if not _isinstance(o, (SymSet, set, frozenset)):
            return False
        o = o if _isinstance(o, SymSet) else SymSet(o)
        return self.issubset(o) and o.issubset(self)

    def __ne__(self, o):
        return not self.__eq__(o)

    __hash__ = None

    def __repr__(self):
        return 'SymSet(%r)' % (self._l,)


class sx_set(metaclass=_ShimMeta):
    _real = set
    _sym = (SymSet,)

    def __new__(cls, *args):
        return SymSet(*args)

    @staticmethod
    def union(*sets):
        r = SymSet()
        r.update(*sets)
        return r

    @staticmethod
    def intersection(first, *sets):
        return SymSet(first).intersection(*sets)


class LazyBag(object):
    """set(iterable) whose only later use is `bag - other` tested for emptiness (the idiom
    `if set(s) - set(ALLOWED)`): membership becomes one formula instead of a fork per element.
    Any other use falls back to a SymSet."""

    def __init__(self, items=()):
        self._items = list(items)

    def _set(self):
        return SymSet(self._items)

    def __sub__(self, other):
        return _LazyDiff(self._items, list(other))

    def __rsub__(self, other):
        return _LazyDiff(list(other), self._items)

    def __iter__(self):
        return iter(self._set())

    def __len__(self):
        return _len(self._set())

    def __bool__(self):
        return _len(self._items) > 0

    def __contains__(self, x):
        return bool(s_or(*[_sym_eq(x, y) for y in self._items])) if self._items else False

    def __getattr__(self, name):
        return getattr(self._set(), name)


class _LazyDiff(object):
    def __init__(self, items, others):
        self._items, self._others = items, others

    def _formula(self):
        outs = []
        for x in self._items:
            member = s_or(*[_sym_eq(x, y) for y in self._others]) if self._others else False
            outs.append(s_not(member))
        return s_or(*outs) if outs else False

    def __bool__(self):
        return bool(self._formula())

    def _set(self):
        return SymSet(self._items).difference(self._others)

    def __iter__(self):
        return iter(self._set())

    def __len__(self):
        return _len(self._set())


class sx_lazyset(metaclass=_ShimMeta):
    _real = set
    _sym = (SymSet, LazyBag, _LazyDiff)

    def __new__(cls, *args):
        return LazyBag(*args)


class SymDict(object):
    """dict replacement with symbolic key equality (insertion ordered association list)."""

    def __init__(self, *args, **kw):
        self._k = []
        self._v = []
        if args:
            src = args[0]
            for k, v in (src.items() if hasattr(src, 'items') else src):
                self[k] = v
        for k, v in kw.items():
            self[k] = v

    def _find(self, k):
        for i, y in enumerate(self._k):
            if SymSet._eq(k, y):
                return i
        return -1

    def __getitem__(self, k):
        i = self._find(k)
        if i < 0:
            raise KeyError(k)
        return self._v[i]

    def __setitem__(self, k, v):
        i = self._find(k)
        if i < 0:
            self._k.append(k)
            self._v.append(v)
        else:
            self._v[i] = v

    def __delitem__(self, k):
        i = self._find(k)
        if i < 0:
            raise KeyError(k)
        del self._k[i]
        del self._v[i]

    def __contains__(self, k):
        return self._find(k) >= 0

    def __sx_contains__(self, k):
        return s_or(*[SymSet._eq(k, y) for y in self._k])

    def get(self, k, default=None):
        i = self._find(k)
        return default if i < 0 else self._v[i]

    def pop(self, k, *default):
        i = self._find(k)
        if i < 0:
            if default:
                return default[0]
            raise KeyError(k)
        v = self._v[i]
        del self._k[i]
        del self._v[i]
        return v

    def setdefault(self, k, default=None):
        i = self._find(k)
        if i < 0:
            self[k] = default
            return default
        return self._v[i]

    def update(self, other=(), **kw):
        for k, v in (other.items() if hasattr(other, 'items') else other):
            self[k] = v
        for k, v in kw.items():
            self[k] = v

    def keys(self):
        return list(self._k)

    def values(self):
        return list(self._v)

    def items(self):
        return list(zip(self._k, self._v))

    def clear(self):
        del self._k[:]
        del self._v[:]

    def copy(self):
        r = SymDict()
        r._k, r._v = list(self._k), list(self._v)
        return r

    def __iter__(self):
        return iter(list(self._k))

    def __len__(self):
        return _len(self._k)

    def __bool__(self):
        return _len(self._k) > 0

    def __eq__(self, o):
        if not _isinstance(o, (SymDict, dict)):
            return False
        if _len(o) != _len(self):
            return False
        for k, v in self.items():
            if k not in o:
                return False
            if not (o[k] == v):
                return False
        return True

    __hash__ = None

    def __repr__(self):
        return 'SymDict(%r)' % (self.items(),)


class sx_dict(metaclass=_ShimMeta):
    _real = dict
    _sym = (SymDict,)

    def __new__(cls, *args, **kw):
        return SymDict(*args, **kw)


# ----------------------------------------------------------------------------------------------
# in-memory byte stream that can hold symbolic bytes (io.BytesIO stand-in)

class SymIO(object):

    def __init__(self, initial=b''):
        self._items = _items_of(initial) if initial is not None else []
        self._pos = 0
        self.closed = False

    def read(self, n=-1):
        if n is None or n < 0:
            n = _len(self._items) - self._pos
        n = operator.index(n)
        out = self._items[self._pos:self._pos + n]
        self._pos += _len(out)
        return mk_bytes(out)

    def peek(self, n=1):
        return mk_bytes(self._items[self._pos:self._pos + n])

    def readline(self):
        out = []
        while self._pos < _len(self._items):
            c = self._items[self._pos]
            self._pos += 1
            out.append(c)
            if c == 10:          # forks on a symbolic byte
                break
        return mk_bytes(out)

    def write(self, data):
        it = _items_of(data)
        if self._pos > _len(self._items):
            self._items.extend([0] * (self._pos - _len(self._items)))
        self._items[self._pos:self._pos + _len(it)] = it
        self._pos += _len(it)
        return _len(it)

    def seek(self, pos, whence=0):
        pos = operator.index(pos)
        if whence == 0:
            self._pos = pos
        elif whence == 1:
            self._pos += pos
        else:
            self._pos = _len(self._items) + pos
        self._pos = max(0, self._pos)
        return self._pos

    def tell(self):
        return self._pos

    def truncate(self, size=None):
        if size is None:
            size = self._pos
        del self._items[operator.index(size):]
        return size

    def getvalue(self):
        return mk_bytes(self._items)

    def getbuffer(self):
        raise Unsupported('getbuffer on SymIO')

    def readable(self):
        return True

    def writable(self):
        return True

    def seekable(self):
        return True

    def flush(self):
        pass

    def close(self):
        self.closed = True

    def __enter__(self):
        return self

    def __exit__(self, *a):
        self.close()


class _SxIOModule(object):
    """Stands in for module io inside lifted modules: BytesIO over symbolic bytes becomes SymIO."""

    def __getattr__(self, name):
        import io as _io
        return getattr(_io, name)

    @property
    def BytesIO(self):
        return SxBytesIO


class _HybridIO(object):
    """BytesIO that starts concrete and switches to a SymIO when symbolic bytes are written."""

    def __init__(self, initial=b''):
        import io as _io
        self._c = _io.BytesIO(initial)
        self._s = None

    def _sym(self):
        if self._s is None:
            self._s = SymIO(self._c.getvalue())
            self._s.seek(self._c.tell())
        return self._s

    def write(self, data):
        if self._s is None and not (_isinstance(data, (SBytes, SByteArray, SView))
                                    and not _all_concrete(data._get_items())):
            if _isinstance(data, (SBytes, SByteArray, SView)):
                data = _bytes(data._get_items())
            return self._c.write(data)
        return self._sym().write(data)

    def seek(self, pos, whence=0):
        if self._s is None:
            if _isinstance(pos, SInt):
                pos = operator.index(pos)
            return self._c.seek(pos, whence)
        return self._s.seek(pos, whence)

    def __getattr__(self, name):
        if name.startswith('__'):
            raise AttributeError(name)
        return getattr(self._c if self._s is None else self._s, name)

    def __enter__(self):
        return self

    def __exit__(self, *a):
        self.close()

    def __iter__(self):
        return iter(self._c if self._s is None else self._s)


import io as _io_mod


class SxBytesIO(_io_mod.BytesIO):
    """io.BytesIO stand-in: direct instances dispatch to SymIO / _HybridIO, subclasses made by the
    real code (class PrinterStream(io.BytesIO)) stay ordinary BytesIO subclasses."""

    def __new__(cls, initial=b''):
        if cls is SxBytesIO:
            if _isinstance(initial, (SBytes, SByteArray, SView)):
                if not _all_concrete(initial._get_items()):
                    return SymIO(initial)
                return _HybridIO(_bytes(initial._get_items()))
            return _HybridIO(initial)
        return _io_mod.BytesIO.__new__(cls)


sx_io = _SxIOModule()


# ----------------------------------------------------------------------------------------------
# struct shim

_CODES = {'b': (1, True), 'B': (1, False), 'h': (2, True), 'H': (2, False), 'i': (4, True),
          'I': (4, False), 'l': (4, True), 'L': (4, False), 'q': (8, True), 'Q': (8, False)}


def _parse_fmt(fmt):
    if _isinstance(fmt, _bytes):
        fmt = fmt.decode('ascii')
    order = '@'
    if fmt and fmt[0] in '<>=!@':
        order = fmt[0]
        fmt = fmt[1:]
    fields = []
    num = ''
    for ch in fmt:
        if ch.isdigit():
            num += ch
            continue
        if ch.isspace():
            continue
        n = _int(num) if num else 1
        num = ''
        if ch in _CODES:
            fields.extend([ch] * n)
        elif ch == 'x':
            fields.extend(['x'] * n)
        elif ch == 's':
            fields.append(('s', n))
        else:
            raise Unsupported('struct format %r' % ch)
    big = order in '>!'
    if order == '@' and any(f in _CODES and _CODES[f][0] > 1 for f in fields if _isinstance(f, str)):
        # native alignment: only safe for single-field formats
        if _len(fields) > 1:
            raise Unsupported('native struct alignment')
    return big, fields


def _any_sym(xs):
    for x in xs:
        if _isinstance(x, (SInt, SBool, SBytes, SByteArray, SView)):
            if _isinstance(x, (SBytes, SByteArray, SView)):
                if not _all_concrete(x._get_items()):
                    return True
            else:
                return True
    return False


class sx_struct(object):
    """Namespace standing in for module struct."""
    error = _struct.error
    calcsize = staticmethod(_struct.calcsize)

    @staticmethod
    def _concrete_buf(buf):
        if _isinstance(buf, (SBytes, SByteArray, SView)):
            return _bytes(_items_of(buf))
        return buf

    @staticmethod
    def unpack(fmt, buf):
        if not _any_sym([buf]):
            return _struct.unpack(fmt, sx_struct._concrete_buf(buf))
        big, fields = _parse_fmt(fmt)
        items = _items_of(buf)
        if _len(items) != _struct.calcsize(fmt):
            raise _struct.error('unpack requires a buffer of %d bytes' % _struct.calcsize(fmt))
        out, pos = [], 0
        for f in fields:
            if f == 'x':
                pos += 1
                continue
            if _isinstance(f, tuple):
                out.append(mk_bytes(items[pos:pos + f[1]]))
                pos += f[1]
                continue
            size, signed = _CODES[f]
            chunk = items[pos:pos + size]
            pos += size
            if big:
                chunk = chunk[::-1]
            out.append(_combine(chunk, signed))
        return tuple(out)

    @staticmethod
    def unpack_from(fmt, buf, offset=0):
        n = _struct.calcsize(fmt)
        if not _any_sym([buf]):
            return _struct.unpack_from(fmt, sx_struct._concrete_buf(buf), offset)
        items = _items_of(buf)
        return sx_struct.unpack(fmt, SBytes(items[offset:offset + n]))

    @staticmethod
    def pack(fmt, *vals):
        if not _any_sym(vals):
            return _struct.pack(fmt, *[sx_struct._concrete_buf(v) for v in vals])
        big, fields = _parse_fmt(fmt)
        out = []
        vals = list(vals)
        for f in fields:
            if f == 'x':
                out.append(0)
                continue
            v = vals.pop(0)
            if _isinstance(f, tuple):
                it = _items_of(v)[:f[1]]
                out.extend(it + [0] * (f[1] - _len(it)))
                continue
            size, signed = _CODES[f]
            chunk = _split(v, size, signed, f)
            if big:
                chunk = chunk[::-1]
            out.extend(chunk)
        return mk_bytes(out)

    @staticmethod
    def pack_into(fmt, buf, offset, *vals):
        data = sx_struct.pack(fmt, *vals)
        n = _len(data)
        if _isinstance(buf, (SByteArray, SView)):
            if offset < 0:
                offset += _len(buf)
            if offset < 0 or offset + n > _len(buf):
                raise _struct.error('pack_into requires a buffer of at least %d bytes' % n)
            buf[offset:offset + n] = data
        else:
            if _isinstance(data, SBytes):
                raise Unsupported('pack_into a real buffer with symbolic data')
            _struct.pack_into(fmt, buf, offset, *vals)

    class Struct(object):
        def __init__(self, fmt):
            self.format = fmt
            self.size = _struct.calcsize(fmt)

        def pack(self, *vals):
            return sx_struct.pack(self.format, *vals)

        def unpack(self, buf):
            return sx_struct.unpack(self.format, buf)

        def pack_into(self, buf, offset, *vals):
            return sx_struct.pack_into(self.format, buf, offset, *vals)

        def unpack_from(self, buf, offset=0):
            return sx_struct.unpack_from(self.format, buf, offset)


def _combine(chunk, signed):
    """little-endian list of byte items -> int"""
    n = _len(chunk)
    if _all_concrete(chunk):
        return _int.from_bytes(_bytes(chunk), 'little', signed=signed)
    if core._is_int_backend(*chunk):
        t = z3.IntVal(0)
        for k, c in enumerate(chunk):
            t = t + core._iterm(c) * (1 << (8 * k))
        hi = (1 << (8 * n)) - 1
        if signed:
            half = 1 << (8 * n - 1)
            t = z3.If(t >= half, t - 2 * half, t)
            return SInt(t, -half, half - 1)
        return SInt(t, 0, hi)
    parts = []
    for c in reversed(chunk):
        if _isinstance(c, SInt):
            parts.append(z3.Extract(7, 0, core._fit(c.t, max(c.t.size(), 8))))
        else:
            parts.append(z3.BitVecVal(c, 8))
    t = z3.Concat(*parts) if n > 1 else parts[0]
    if signed:
        half = 1 << (8 * n - 1)
        return SInt(t, -half, half - 1)
    return SInt(z3.ZeroExt(1, t), 0, (1 << (8 * n)) - 1)


def _split(v, size, signed, code):
    """int -> little-endian list of byte items, with struct's range check"""
    if _isinstance(v, SBool):
        v = core.as_int(v)
    lo = -(1 << (8 * size - 1)) if signed else 0
    hi = (1 << (8 * size - 1)) - 1 if signed else (1 << (8 * size)) - 1
    if not _isinstance(v, SInt):
        v = operator.index(v)
        if not lo <= v <= hi:
            raise _struct.error("'%s' format requires %d <= number <= %d" % (code, lo, hi))
        return list(v.to_bytes(size, 'little', signed=signed))
    if v.lo < lo or v.hi > hi:
        if not s_and(v >= lo, v <= hi):
            raise _struct.error("'%s' format requires %d <= number <= %d" % (code, lo, hi))
    out = []
    if core._is_int_backend(v):
        u = ite(v < 0, v + (1 << (8 * size)), v) if signed else v
        for k in range(size):
            out.append(SInt._mk(((u.t if _isinstance(u, SInt) else z3.IntVal(u)) / (1 << (8 * k))) % 256, 0, 255))
        return out
    t = core._fit(v.t, max(v.t.size(), 8 * size))
    for k in range(size):
        b = z3.simplify(z3.Extract(8 * k + 7, 8 * k, t))
        if z3.is_bv_value(b):
            out.append(b.as_long())
        else:
            out.append(SInt(z3.ZeroExt(1, b), 0, 255))
    return out


# ----------------------------------------------------------------------------------------------
# creating symbolic inputs

def sym_byte(name):
    return core.ctx().fresh_int(name, 0, 255)


def sym_bytes(name, n):
    return SBytes([sym_byte('%s_%d' % (name, i)) for i in range(n)])
