"""
symx.runner -- harness framework: cases, symbolic + concrete execution of the same body,
obligations, per-path validation against the pristine code, known findings, evidence.
"""

import fnmatch
import json
import multiprocessing
import os
import subprocess
import sys
import time
import traceback

import z3

from . import core, seqs, lift
from .core import SInt, SBool, Inconclusive, PathAbort

VERIF = os.path.dirname(os.path.dirname(os.path.abspath(__file__)))
REPO = lift.REPO
SYMTYPES = (SInt, SBool, seqs.SBytes, seqs.SByteArray, seqs.SView)


class AssumeFailed(Exception):
    pass


class Case(object):
    def __init__(self, name, body, backend='BV', abstract_products=False, ifconvert=None,
                 max_paths=200000, max_decisions=4000, max_fanout=64, timeout_s=600,
                 query_timeout_ms=120000, params=None, nolift=None, note='', extra_globals=None, symdict=None):
        self.name = name
        self.body = body
        self.backend = backend
        self.abstract_products = abstract_products
        self.ifconvert = ifconvert or {}
        self.max_paths = max_paths
        self.max_decisions = max_decisions
        self.max_fanout = max_fanout
        self.timeout_s = timeout_s
        self.query_timeout_ms = query_timeout_ms
        self.params = params or {}
        self.nolift = nolift or []
        self.extra_globals = extra_globals or {}
        self.symdict = symdict or []
        self.note = note


# ----------------------------------------------------------------------------------------------
# converting observations to plain Python values

def plain(x, model=None):
    if isinstance(x, (SInt, SBool)):
        if model is None:
            raise ValueError('symbolic value in a concrete observation')
        return core.model_value(model, x)
    if isinstance(x, (seqs.SBytes, seqs.SByteArray, seqs.SView)):
        return bytes(plain(i, model) for i in x._get_items())
    if isinstance(x, (bytes, bytearray, memoryview)):
        return bytes(x)
    if isinstance(x, (list, tuple)):
        return [plain(i, model) for i in x]
    if isinstance(x, dict):
        return {str(k): plain(v, model) for k, v in x.items()}
    if isinstance(x, bool) or x is None or isinstance(x, (int, str, float)):
        return x
    if hasattr(x, 'to_bytes') and hasattr(x, 'sigil'):
        return [type(x).__name__, plain(x.to_bytes(), model)]
    return '<%s>' % type(x).__name__


def jsonable(x):
    if isinstance(x, bytes):
        return x.hex()
    if isinstance(x, (list, tuple)):
        return [jsonable(i) for i in x]
    if isinstance(x, dict):
        return {k: jsonable(v) for k, v in x.items()}
    return x


# ----------------------------------------------------------------------------------------------
# the object handed to harness bodies

class H(object):
    """Harness context: same API in symbolic and in concrete mode."""

    def __init__(self, case, symbolic, pathctx=None, inputs=None, known=None, prop=None):
        self.case = case
        self.symbolic = symbolic
        self.pc = pathctx
        self.inputs = inputs if inputs is not None else {}
        self.P = lift.Pkg(symbolic)
        self.params = case.params
        self.known = known or []
        self.prop = prop
        self.req_results = []          # [(label, status, info)]
        self.failed_labels = []        # concrete mode
        self.used_inputs = []
        self.facts = {}

    # -- inputs ---------------------------------------------------------------------------

    def int(self, name, lo, hi):
        self.used_inputs.append(name)
        if self.symbolic:
            return self.pc.fresh_int(name, lo, hi)
        v = int(self.inputs.get(name, lo if lo > 0 or hi < 0 else 0))
        if not lo <= v <= hi:
            raise AssumeFailed('%s=%d outside [%d,%d]' % (name, v, lo, hi))
        return v

    def byte(self, name):
        return self.int(name, 0, 255)

    def bool(self, name):
        return self.int(name, 0, 1) != 0

    def bytes(self, name, n):
        items = [self.byte('%s_%d' % (name, i)) for i in range(n)]
        if self.symbolic:
            return seqs.SBytes(items)
        return bytes(items)

    def choice(self, name, options):
        """Concrete choice among options (forks once per option in symbolic mode)."""
        i = self.int(name, 0, len(options) - 1)
        if self.symbolic:
            i = self.pc.concretize(i, limit=len(options) + 1)
        return options[i]

    # -- constraints ---------------------------------------------------------------------

    def assume(self, c):
        if self.symbolic:
            self.pc.assume(c)
        elif not c:
            raise AssumeFailed('assumption false')

    def concretize(self, x, limit=None):
        if self.symbolic:
            return self.pc.concretize(x, limit)
        return int(x)

    def require(self, label, cond, info=None):
        """An obligation: cond must hold for every input on this path."""
        if not self.symbolic:
            ok = bool(cond)
            self.req_results.append((label, 'ok' if ok else 'fail', None))
            if not ok:
                self.failed_labels.append(label)
            return ok
        self.req_results.append(_decide(self, label, cond))
        return True

    # -- running the real code ----------------------------------------------------------

    def call(self, fn, *args, **kw):
        """Run real code; returns ('ok', result) | ('err', basic_error_code) | ('exc', type_name)."""
        try:
            return ('ok', fn(*args, **kw))
        except Exception as e:  # never catches the engine's BaseExceptions
            if type(e).__name__ == 'BASICError':
                return ('err', e.err.value if hasattr(e.err, 'value') else e.err)
            return ('exc', type(e).__name__)

    def ite(self, c, a, b):
        return core.ite(c, a, b)

    def fact(self, name, value):
        """Name a derived quantity so that known-finding predicates can refer to it."""
        self.facts[name] = value


def _eval_known(k, h):
    env = {'And': core.s_and, 'Or': core.s_or, 'Not': core.s_not, 'ite': core.ite,
           'implies': core.s_implies}
    for name in h.used_inputs:
        if h.symbolic:
            env[name] = h.pc.inputs[name][0]
        else:
            env[name] = h.inputs.get(name, 0)
    env['params'] = h.case.params
    env.update(h.facts)
    return eval(k['predicate'], {'__builtins__': {'abs': abs, 'min': min, 'max': max, 'len': len}}, env)


def _matching_known(h, label):
    out = []
    for k in h.known:
        if k.get('status', 'known') != 'known':
            continue
        if k['property'] != h.prop:
            continue
        if not fnmatch.fnmatch(h.case.name, k.get('case', '*')):
            continue
        if not fnmatch.fnmatch(label, k.get('label', '*')):
            continue
        out.append(k)
    return out


def _inputs_from_model(h, m):
    out = {}
    for name, (x, v) in h.pc.inputs.items():
        val = m.eval(v, model_completion=True)
        if z3.is_bv(val):
            # unsigned variables are declared unsigned; signed ones signed
            out[name] = val.as_long() if x.lo >= 0 else val.as_signed_long()
        else:
            out[name] = val.as_long()
    return out


def _decide(h, label, cond):
    """Discharge an obligation on the current path; returns (label, status, info)."""
    pc = h.pc
    if isinstance(cond, SInt):
        cond = (cond != 0)
    if not isinstance(cond, SBool):
        if cond:
            return (label, 'trivial', None)
        neg = z3.BoolVal(True)
    else:
        neg = z3.Not(cond.t)
    res, m = pc.query([neg], h.case.query_timeout_ms)
    if res == 'unsat':
        return (label, 'discharged', None)
    if res == 'unknown':
        return (label, 'unknown', None)
    if pc.products:
        # counterexample under the product abstraction: refine with the exact products
        exact = pc.exact_product_terms()
        res, m = pc.query([neg] + exact, h.case.query_timeout_ms)
        if res == 'unsat':
            return (label, 'discharged', None)
        if res == 'unknown':
            return (label, 'unknown', None)
        neg = z3.And(neg, *exact)
    # a counterexample on this path.  Is it outside every known finding?
    ks = _matching_known(h, label)
    kterms = []
    for k in ks:
        p = _eval_known(k, h)
        kterms.append(core.bterm(p))
    if ks:
        res2, m2 = pc.query([neg] + [z3.Not(t) for t in kterms], h.case.query_timeout_ms)
        if res2 == 'unknown':
            return (label, 'unknown', None)
        if res2 == 'sat':
            return (label, 'violation', {'inputs': _inputs_from_model(h, m2), 'known': None})
        # all counterexamples on this path are covered by listed findings
        inputs = _inputs_from_model(h, m)
        which = None
        for k, t in zip(ks, kterms):
            if z3.is_true(m.eval(t, model_completion=True)):
                which = k['id']
                break
        # continue the path under the assumption that the obligation holds, if possible
        return (label, 'violation', {'inputs': inputs, 'known': which})
    return (label, 'violation', {'inputs': _inputs_from_model(h, m), 'known': None})


# ----------------------------------------------------------------------------------------------
# running one case (in a worker process)

def load_known():
    p = os.path.join(VERIF, 'known_findings.json')
    if not os.path.exists(p):
        return []
    with open(p) as f:
        return json.load(f).get('findings', [])


def concrete_run(case, inputs, prop, known=None):
    """Run the body on the pristine code with concrete inputs."""
    h = H(case, False, inputs=inputs, known=known, prop=prop)
    try:
        obs = case.body(h)
        return {'status': 'ok', 'obs': plain(obs), 'failed': list(h.failed_labels),
                'reqs': [(l, s) for l, s, _ in h.req_results]}
    except AssumeFailed as e:
        return {'status': 'assume_failed', 'msg': str(e), 'failed': [], 'obs': None, 'reqs': []}
    except Exception as e:
        return {'status': 'crash', 'msg': '%s: %s' % (type(e).__name__, e),
                'tb': traceback.format_exc(), 'failed': list(h.failed_labels), 'obs': None,
                'reqs': [(l, s) for l, s, _ in h.req_results]}


def _configure_lift(case):
    lift.CONFIG.ifconvert = dict(case.ifconvert)
    lift.CONFIG.nolift = list(case.nolift)
    lift.CONFIG.extra_globals = dict(case.extra_globals)
    lift.CONFIG.symdict = list(case.symdict)
    lift.install()


def run_case(modname, case_index, tier, prop):
    """Worker entry point: explore one case completely; returns a plain dict."""
    t0 = time.time()
    sys.setrecursionlimit(10000)
    mod = __import__(modname, fromlist=['x'])
    case = mod.cases(tier)[case_index]
    _configure_lift(case)
    known = load_known()
    res = {
        'case': case.name, 'paths': 0, 'decisions': 0, 'aborted': 0, 'validated': 0,
        'obligations': 0, 'discharged': 0, 'trivial': 0, 'violations': [], 'known_hits': [],
        'inconclusive': [], 'errors': [], 'samples': [], 'functions': [], 'queries': 0,
        'solver_time': 0.0, 'unknown': 0, 'note': case.note, 'backend': case.backend,
    }
    ex = core.Explorer(backend=case.backend, abstract_products=case.abstract_products,
                       max_decisions=case.max_decisions, max_paths=case.max_paths,
                       max_fanout=case.max_fanout, query_timeout_ms=case.query_timeout_ms)
    deadline = t0 + case.timeout_s
    funcs = set()
    state = {'first': True}

    def body(pathctx):
        if time.time() > deadline:
            raise Inconclusive('time bound %ds hit' % case.timeout_s)
        h = H(case, True, pathctx=pathctx, known=known, prop=prop)
        pathctx.h = h
        if state['first']:
            state['first'] = False

            def prof(frame, event, arg):
                if event == 'call':
                    co = frame.f_code
                    if co.co_filename.startswith(REPO):
                        funcs.add('%s:%s' % (os.path.relpath(co.co_filename, REPO), co.co_qualname))
            sys.setprofile(prof)
            try:
                return h, _run_body(case, h)
            finally:
                sys.setprofile(None)
        return h, _run_body(case, h)

    def _run_body(case, h):
        try:
            return ('ok', case.body(h))
        except Exception as e:
            return ('crash', '%s: %s' % (type(e).__name__, e), traceback.format_exc())

    def on_path(pathctx, outcome):
        kind = outcome[0]
        if kind == 'abort':
            res['aborted'] += 1
            return
        if kind == 'inconclusive':
            res['inconclusive'].append(outcome[1])
            return
        h, bres = outcome[1]
        res['paths'] += 1
        try:
            if pathctx.products:
                r_, model = pathctx.query(pathctx.exact_product_terms(), 30000)
                if r_ == 'unsat':
                    # path exists only under the abstraction
                    res['spurious'] = res.get('spurious', 0) + 1
                    res['paths'] -= 1
                    return
                if r_ != 'sat':
                    res['unvalidated'] = res.get('unvalidated', 0) + 1
                    model = None
            else:
                model = pathctx.current_model()
        except PathAbort:
            res['paths'] -= 1
            res['aborted'] += 1
            return
        except Inconclusive as e:
            res['inconclusive'].append(str(e))
            return
        inputs = _inputs_from_model(h, model) if model is not None else None
        # obligations
        viol_here = []
        for label, status, info in h.req_results:
            res['obligations'] += 1
            if status == 'discharged':
                res['discharged'] += 1
            elif status == 'trivial':
                res['discharged'] += 1
                res['trivial'] += 1
            elif status == 'unknown':
                res['inconclusive'].append('solver unknown on obligation %s' % label)
            elif status == 'violation':
                viol_here.append((label, info))
        for label, info in viol_here:
            cr = concrete_run(case, info['inputs'], prop, known)
            reproduced = label in cr['failed']
            entry = {'case': case.name, 'label': label, 'inputs': info['inputs'],
                     'known': info['known'], 'reproduced': reproduced,
                     'concrete_status': cr['status'], 'msg': cr.get('msg')}
            if info['known'] and reproduced:
                if len(res['known_hits']) < 50:
                    res['known_hits'].append(entry)
                else:
                    res['known_hits'][-1]['more'] = res['known_hits'][-1].get('more', 0) + 1
            else:
                res['violations'].append(entry)
        # validation of this path against the pristine code
        if model is None:
            return
        cr = concrete_run(case, inputs, prop, known)
        sym_failed = set(l for l, _ in viol_here)
        if bres[0] == 'crash':
            if cr['status'] == 'crash' and cr['msg'].split(':')[0] == bres[1].split(':')[0]:
                res['errors'].append('body crashed (also concretely) on %r: %s' % (inputs, bres[1]))
            else:
                res['errors'].append('body crashed symbolically only on %r: %s\n%s' % (
                    inputs, bres[1], bres[2]))
            return
        if cr['status'] != 'ok':
            res['errors'].append('validation: concrete run %s on %r: %s' % (
                cr['status'], inputs, cr.get('msg')))
            return
        try:
            sym_obs = plain(bres[1], model)
        except Exception as e:
            res['errors'].append('cannot evaluate observation: %s' % e)
            return
        if sym_obs != cr['obs']:
            res['errors'].append('validation mismatch on %r: symbolic %r concrete %r' % (
                inputs, sym_obs, cr['obs']))
            return
        # a concretely failing obligation must have been found symbolically
        for l in cr['failed']:
            if l not in sym_failed:
                res['errors'].append('validation: obligation %s fails concretely on %r but was '
                                     'discharged symbolically' % (l, inputs))
                return
        res['validated'] += 1
        if len(res['samples']) < 3:
            res['samples'].append({'case': case.name, 'inputs': inputs, 'observation': jsonable(sym_obs),
                                   'obligations': [(l, s) for l, s, _ in h.req_results]})

    try:
        ex.run(body, on_path)
    except Exception as e:
        res['errors'].append('engine: %s: %s\n%s' % (type(e).__name__, e, traceback.format_exc()))
    res['decisions'] = ex.decisions
    res['queries'] = ex.stats.queries
    res['solver_time'] = round(ex.stats.solver_time, 3)
    res['unknown'] = ex.stats.unknown
    res['functions'] = sorted(funcs)
    res['wall'] = round(time.time() - t0, 3)
    res['lift_report'] = lift.CONFIG.report
    return res


def _worker(args):
    try:
        return run_case(*args)
    except BaseException as e:
        return {'case': '%s[%d]' % (args[0], args[1]), 'errors': [
            'worker: %s: %s\n%s' % (type(e).__name__, e, traceback.format_exc())],
            'paths': 0, 'decisions': 0, 'aborted': 0, 'validated': 0, 'obligations': 0,
            'discharged': 0, 'trivial': 0, 'violations': [], 'known_hits': [], 'inconclusive': [],
            'samples': [], 'functions': [], 'queries': 0, 'solver_time': 0.0, 'unknown': 0,
            'wall': 0, 'note': '', 'backend': '?'}


# ----------------------------------------------------------------------------------------------
# driver

def replay_file(modname, path):
    """Replay a recorded counterexample against the pristine code. exit 1 if it fails."""
    with open(path) as f:
        r = json.load(f)
    mod = __import__(modname, fromlist=['x'])
    case = [c for c in mod.cases(r.get('tier', 'quick')) if c.name == r['case']]
    if not case:
        case = [c for c in mod.cases('thorough') if c.name == r['case']]
    if not case:
        print('replay: no such case %s' % r['case'])
        return 3
    lift.install()
    cr = concrete_run(case[0], r['inputs'], r['property'], load_known())
    print('replay: status=%s failed=%s obs=%r' % (cr['status'], cr['failed'], cr['obs']))
    if cr.get('tb'):
        print(cr['tb'])
    if r['label'] in cr['failed']:
        print('VIOLATION property=%s replay=%s' % (r['property'], path))
        return 1
    return 0


def main(prop, modname, tier, jobs=None, only=None):
    t0 = time.time()
    mod = __import__(modname, fromlist=['x'])
    cases = mod.cases(tier)
    idx = [i for i, c in enumerate(cases) if only is None or fnmatch.fnmatch(c.name, only)]
    jobs = jobs or int(os.environ.get('SYMX_JOBS', '16'))
    ctx = multiprocessing.get_context('fork')
    results = []
    args = [(modname, i, tier, prop) for i in idx]
    if len(args) == 1 or jobs == 1:
        results = [_worker(a) for a in args]
    else:
        with ctx.Pool(min(jobs, len(args)), maxtasksperchild=1) as pool:
            for r in pool.imap_unordered(_worker, args, chunksize=1):
                results.append(r)
                if os.environ.get('SYMX_VERBOSE'):
                    print('  case %-40s paths=%d obl=%d/%d viol=%d known=%d inc=%d err=%d %.1fs' % (
                        r['case'], r['paths'], r['discharged'], r['obligations'],
                        len(r['violations']), len(r['known_hits']), len(r['inconclusive']),
                        len(r['errors']), r.get('wall', 0)), flush=True)
    results.sort(key=lambda r: r['case'])
    return report(prop, mod, tier, results, time.time() - t0)


def report(prop, mod, tier, results, wall):
    tot = lambda k: sum(r[k] for r in results)
    errors = [e for r in results for e in r['errors']]
    inconc = [(r['case'], i) for r in results for i in r['inconclusive']]
    violations = [v for r in results for v in r['violations']]
    known_hits = [v for r in results for v in r['known_hits']]
    real_viol = [v for v in violations if v['reproduced']]
    nonrepro = [v for v in violations if not v['reproduced']]
    os.makedirs(os.path.join(VERIF, 'evidence'), exist_ok=True)
    os.makedirs(os.path.join(VERIF, 'replays'), exist_ok=True)
    exit_code = 0
    out_lines = []
    # unlisted, reproduced violations -> confirm in a fresh process and report
    confirmed = []
    for n, v in enumerate(real_viol[:20]):
        path = os.path.join(VERIF, 'replays', '%s_%s_%d.json' % (prop, v['case'].replace('/', '_'), n))
        with open(path, 'w') as f:
            json.dump({'property': prop, 'case': v['case'], 'label': v['label'],
                       'inputs': v['inputs'], 'tier': tier,
                       'replay_cmd': '%s/check %s --replay %s' % (VERIF, prop, path)}, f, indent=1)
        p = subprocess.run([sys.executable, os.path.join(VERIF, 'check.py'), prop, '--replay', path],
                           capture_output=True, text=True, timeout=600)
        if p.returncode == 1:
            confirmed.append((v, path))
        else:
            nonrepro.append(v)
    for v, path in confirmed:
        out_lines.append('VIOLATION property=%s replay=%s' % (prop, path))
        out_lines.append('  case=%s obligation=%s inputs=%s' % (v['case'], v['label'], v['inputs']))
    seen = set()
    for v in known_hits:
        if v['known'] in seen:
            continue
        seen.add(v['known'])
        what = [k for k in load_known() if k['id'] == v['known']][0]['what']
        out_lines.append('KNOWN-FINDING: property=%s %s (%s; e.g. case=%s inputs=%s)' % (
            prop, what, v['known'], v['case'], v['inputs']))
    if confirmed:
        exit_code = 1
    elif errors or nonrepro:
        exit_code = 3
    elif inconc:
        exit_code = 2
    for e in errors[:10]:
        out_lines.append('ENGINE-ERROR: ' + e[:2000])
    for v in nonrepro[:10]:
        out_lines.append('NON-REPRODUCING counterexample (engine/model error): %s' % (v,))
    for c, i in inconc[:10]:
        out_lines.append('INCONCLUSIVE: case=%s %s' % (c, i))
    samples = [s for r in results for s in r['samples']][:12]
    funcs = sorted(set(f for r in results for f in r['functions']))
    ev = {
        'property_id': prop,
        'tier': tier,
        'seed': int(os.environ.get('VERIF_SEED', '0') or 0),
        'level': 'model_checking',
        'coverage': {
            'states': tot('paths'),
            'transitions': tot('decisions') + tot('obligations'),
            'traces_validated_against_impl': tot('validated'),
            'samples': samples if samples else [{'note': 'no path completed'}],
            'obligations': tot('obligations'),
            'discharged': tot('discharged'),
            'discharged_by_constant_folding': tot('trivial'),
            'cases': len(results),
            'paths_dropped_as_infeasible': tot('aborted'),
            'solver_queries': tot('queries'),
            'solver_time_s': round(sum(r['solver_time'] for r in results), 2),
            'solver_unknown': tot('unknown'),
            'bound_hits_or_inconclusive': len(inconc),
            'engine_errors': len(errors) + len(nonrepro),
            'known_finding_hits': sorted(seen),
            'functions_encoded': funcs,
            'bounds': getattr(mod, 'BOUNDS', {}).get(tier, getattr(mod, 'BOUNDS', {})),
            'oracle': getattr(mod, 'ORACLE', ''),
            'stubs': getattr(mod, 'STUBS', []),
            'per_case': [{'case': r['case'], 'paths': r['paths'], 'obligations': r['obligations'],
                          'discharged': r['discharged'], 'backend': r['backend'],
                          'wall_s': r.get('wall', 0), 'note': r['note']} for r in results][:400],
            'exhaustive': False,
            'explanation': 'symbolic execution of the real /repo code (symx) with z3 deciding every '
                           'path; states=paths explored, transitions=symbolic branch decisions taken plus obligation '
                           'queries decided',
            'verdict': {0: 'holds within bounds', 1: 'violation', 2: 'inconclusive',
                        3: 'engine error'}[exit_code],
        },
        'assumptions': getattr(mod, 'ASSUMPTIONS', []),
        'wall_s': round(wall, 2),
        'violations': len(confirmed),
    }
    with open(os.path.join(VERIF, 'evidence', '%s.json' % prop), 'w') as f:
        json.dump(ev, f, indent=1, default=str)
    print('%s tier=%s cases=%d paths=%d obligations=%d discharged=%d validated=%d queries=%d '
          'solver=%.1fs wall=%.1fs -> exit %d' % (
              prop, tier, len(results), tot('paths'), tot('obligations'), tot('discharged'),
              tot('validated'), tot('queries'), sum(r['solver_time'] for r in results), wall,
              exit_code))
    for l in out_lines:
        print(l)
    return exit_code
