"""
symx.lift -- load the real pcbasic source of /repo under a private package name, with a small
semantics-preserving AST normalisation and symbolic-aware names injected in the module globals.

Nothing is cached: every process re-reads /repo's working tree.
"""

import ast
import importlib
import importlib.abc
import importlib.machinery
import importlib.util
import operator
import os
import sys

from . import core, seqs
from .core import SInt, SBool

LIFTED = 'sxpcbasic'
REPO = os.environ.get('SYMX_REPO', '/repo')

_SYM = (SInt, SBool, seqs.SBytes, seqs.SByteArray, seqs.SView)


# ----------------------------------------------------------------------------------------------
# runtime helpers referenced by rewritten code

def _sx_iadd(a, b):
    if isinstance(b, (seqs.SBytes, seqs.SByteArray, seqs.SView)) and isinstance(a, (bytes, bytearray)):
        return b.__radd__(a)
    return operator.iadd(a, b)


def _sx_in(x, c):
    r = seqs.sx_in(x, c)
    return r


def _sx_not_in(x, c):
    return seqs.sx_not_in(x, c)


def _sx_ite(c, a, b):
    return core.ite(c, a, b)


def _sx_join(sep, parts):
    """sep.join(parts) where parts may contain symbolic byte strings"""
    if isinstance(sep, (bytes, bytearray)):
        parts = list(parts)
        if any(isinstance(p, (seqs.SBytes, seqs.SByteArray, seqs.SView)) for p in parts):
            return seqs.SBytes(list(sep)).join(parts)
    return sep.join(parts)


INJECT = {
    'bytes': seqs.sx_bytes,
    'bytearray': seqs.sx_bytearray,
    'memoryview': seqs.sx_memoryview,
    'int': seqs.sx_int,
    'isinstance': seqs.sx_isinstance,
    'ord': seqs.sx_ord,
    'chr': seqs.sx_chr,
    'min': seqs.sx_min,
    'max': seqs.sx_max,
    'SX_struct': seqs.sx_struct,
    'SX_io': seqs.sx_io,
    'SX_add': seqs.sx_add,
    'SX_mod': seqs.sx_mod,
    'SX_iadd': _sx_iadd,
    'SX_in': _sx_in,
    'SX_not_in': _sx_not_in,
    'SX_ite': _sx_ite,
    'SX_join': _sx_join,
    'SX_dict': seqs.SymDict,
}


# ----------------------------------------------------------------------------------------------
# AST normalisation

class _Rewriter(ast.NodeTransformer):

    def __init__(self, ifconvert=(), symdict=False):
        self.ifconvert = set(ifconvert)
        # rewrite dict displays {k: v, ...} into association lists with symbolic key equality
        self.symdict = symdict
        self.func_stack = []
        self.counter = 0
        self.converted = []

    def visit_Compare(self, node):
        self.generic_visit(node)
        if len(node.ops) == 1 and isinstance(node.ops[0], (ast.In, ast.NotIn)):
            fn = 'SX_in' if isinstance(node.ops[0], ast.In) else 'SX_not_in'
            return ast.copy_location(ast.Call(
                func=ast.Name(id=fn, ctx=ast.Load()),
                args=[node.left, node.comparators[0]], keywords=[]), node)
        return node

    def visit_BinOp(self, node):
        self.generic_visit(node)
        if isinstance(node.op, ast.Add):
            fn = 'SX_add'
        elif isinstance(node.op, ast.Mod):
            fn = 'SX_mod'
        else:
            return node
        return ast.copy_location(ast.Call(
            func=ast.Name(id=fn, ctx=ast.Load()), args=[node.left, node.right], keywords=[]), node)

    def visit_Call(self, node):
        self.generic_visit(node)
        if isinstance(node.func, ast.Attribute) and node.func.attr == 'join' and \
                len(node.args) == 1 and not node.keywords:
            return ast.copy_location(ast.Call(
                func=ast.Name(id='SX_join', ctx=ast.Load()),
                args=[node.func.value, node.args[0]], keywords=[]), node)
        return node

    def visit_Dict(self, node):
        self.generic_visit(node)
        if not self.symdict or any(k is None for k in node.keys):
            return node
        pairs = ast.List(elts=[ast.Tuple(elts=[k, v], ctx=ast.Load()) for k, v in zip(node.keys, node.values)],
                         ctx=ast.Load())
        return ast.copy_location(ast.Call(func=ast.Name(id='SX_dict', ctx=ast.Load()), args=[pairs], keywords=[]), node)

    def visit_AugAssign(self, node):
        self.generic_visit(node)
        if isinstance(node.op, ast.Add) and isinstance(node.target, ast.Name):
            load = ast.Name(id=node.target.id, ctx=ast.Load())
            return ast.copy_location(ast.Assign(
                targets=[node.target],
                value=ast.Call(func=ast.Name(id='SX_iadd', ctx=ast.Load()),
                               args=[load, node.value], keywords=[])), node)
        return node

    def visit_Import(self, node):
        out = []
        for alias in node.names:
            if alias.name in ('struct', 'io'):
                out.append(ast.copy_location(ast.Assign(
                    targets=[ast.Name(id=alias.asname or alias.name, ctx=ast.Store())],
                    value=ast.Name(id='SX_' + alias.name, ctx=ast.Load())), node))
            else:
                out.append(ast.copy_location(ast.Import(names=[alias]), node))
        return out

    # -- if-conversion of listed functions ------------------------------------------

    def visit_FunctionDef(self, node):
        self.func_stack.append(node.name)
        self.generic_visit(node)
        self.func_stack.pop()
        return node

    def _pure(self, e):
        for n in ast.walk(e):
            if isinstance(n, (ast.Call, ast.Attribute, ast.Subscript, ast.Await, ast.Yield,
                              ast.YieldFrom, ast.NamedExpr, ast.Lambda)):
                if isinstance(n, ast.Call) and isinstance(n.func, ast.Name) and \
                        n.func.id in ('SX_add', 'SX_iadd', 'SX_ite'):
                    continue
                if isinstance(n, ast.Attribute) and isinstance(n.value, ast.Name) and n.value.id == 'self':
                    continue
                return False
            if isinstance(n, (ast.Div, ast.FloorDiv, ast.Mod)):
                return False
        return True

    def _assignments(self, body):
        """[(name, expr)] if body is only simple assignments to local names, else None."""
        out = []
        for st in body:
            if isinstance(st, ast.Assign) and len(st.targets) == 1 and isinstance(st.targets[0], ast.Name):
                out.append((st.targets[0].id, st.value))
            elif isinstance(st, ast.AugAssign) and isinstance(st.target, ast.Name):
                out.append((st.target.id, ast.BinOp(
                    left=ast.Name(id=st.target.id, ctx=ast.Load()), op=st.op, right=st.value)))
            elif isinstance(st, ast.Pass):
                pass
            else:
                return None
            if not self._pure(out[-1][1] if out else ast.Constant(0)):
                return None
        return out

    def visit_If(self, node):
        self.generic_visit(node)
        if not self.func_stack or self.func_stack[-1] not in self.ifconvert:
            return node
        if not self._pure(node.test):
            return node
        a = self._assignments(node.body)
        b = self._assignments(node.orelse)
        if a is None or b is None:
            return node
        # sequential semantics inside a branch: later statements see earlier ones; handled
        # by evaluating the branch into temporaries in order
        self.counter += 1
        k = self.counter
        cname = 'SXc%d' % k
        stmts = [ast.Assign(targets=[ast.Name(id=cname, ctx=ast.Store())], value=node.test)]
        names = []
        for which, assigns in (('t', a), ('f', b)):
            env = {}
            for name, expr in assigns:
                expr = _Subst(env).visit(_copy(expr))
                tmp = 'SX%s%d_%s_%d' % (which, k, name, len(env))
                stmts.append(ast.Assign(targets=[ast.Name(id=tmp, ctx=ast.Store())], value=expr))
                env[name] = tmp
                if name not in names:
                    names.append(name)
            if which == 't':
                env_t = env
            else:
                env_f = env
        # a name assigned in one branch only must already exist; use the old value otherwise
        for name in names:
            tv = ast.Name(id=env_t.get(name, name), ctx=ast.Load())
            fv = ast.Name(id=env_f.get(name, name), ctx=ast.Load())
            stmts.append(ast.Assign(
                targets=[ast.Name(id=name, ctx=ast.Store())],
                value=ast.Call(func=ast.Name(id='SX_ite', ctx=ast.Load()),
                               args=[ast.Name(id=cname, ctx=ast.Load()), tv, fv], keywords=[])))
        self.converted.append(self.func_stack[-1])
        return [ast.copy_location(s, node) for s in stmts]


def _copy(e):
    return ast.parse(ast.unparse(e), mode='eval').body


class _Subst(ast.NodeTransformer):
    def __init__(self, env):
        self.env = env

    def visit_Name(self, node):
        if isinstance(node.ctx, ast.Load) and node.id in self.env:
            return ast.copy_location(ast.Name(id=self.env[node.id], ctx=ast.Load()), node)
        return node


# ----------------------------------------------------------------------------------------------
# configuration

class Config(object):
    def __init__(self):
        # module names (relative to pcbasic) that get the rewrite + injected names;
        # prefixes ending with '.' select sub-packages
        self.lift = ['basic.', 'compat.python3']
        self.nolift = []
        self.ifconvert = {}      # relative module name -> [function names]
        self.extra_globals = {}  # relative module name -> {name: object}
        self.symdict = []        # relative module names whose dict displays become SymDict
        self.report = {}         # what was rewritten (for evidence)

    def is_lifted(self, rel):
        for n in self.nolift:
            if rel == n or (n.endswith('.') and rel.startswith(n)):
                return False
        for n in self.lift:
            if rel == n or (n.endswith('.') and (rel + '.').startswith(n)):
                return True
        return False


CONFIG = Config()


class _Loader(importlib.machinery.SourceFileLoader):
    """File loader (so importlib.resources keeps working) that rewrites the source."""

    def __init__(self, fullname, path, is_pkg=False):
        importlib.machinery.SourceFileLoader.__init__(self, fullname, path)
        self.fullname = fullname

    def create_module(self, spec):
        return None

    def exec_module(self, module):
        with open(self.path, 'rb') as f:
            src = f.read()
        rel = self.fullname[len(LIFTED) + 1:]
        tree = ast.parse(src, self.path)
        if CONFIG.is_lifted(rel):
            rw = _Rewriter(CONFIG.ifconvert.get(rel, ()), rel in CONFIG.symdict)
            if rel in CONFIG.symdict:
                CONFIG.report.setdefault('symdict_modules', []).append(rel)
            tree = rw.visit(tree)
            ast.fix_missing_locations(tree)
            module.__dict__.update(INJECT)
            if rw.converted:
                CONFIG.report.setdefault('ifconverted', []).extend(
                    '%s:%s' % (rel, n) for n in rw.converted)
            CONFIG.report.setdefault('lifted_modules', []).append(rel)
        module.__dict__.update(CONFIG.extra_globals.get(rel, {}))
        code = compile(tree, self.path, 'exec', dont_inherit=True)
        exec(code, module.__dict__)


class _Finder(importlib.abc.MetaPathFinder):

    def find_spec(self, fullname, path=None, target=None):
        if fullname != LIFTED and not fullname.startswith(LIFTED + '.'):
            return None
        rel = fullname.split('.')[1:]
        base = os.path.join(REPO, 'pcbasic', *rel)
        if os.path.isdir(base) and os.path.isfile(os.path.join(base, '__init__.py')):
            p = os.path.join(base, '__init__.py')
            return importlib.util.spec_from_file_location(
                fullname, p, loader=_Loader(fullname, p, True), submodule_search_locations=[base])
        if os.path.isfile(base + '.py'):
            p = base + '.py'
            return importlib.util.spec_from_file_location(fullname, p, loader=_Loader(fullname, p))
        return None


_installed = False

# packages whose __init__ pulls in the whole interpreter; harnesses that need only some
# modules get an empty package object instead (module code itself is never altered by this)
STUB_PACKAGES = ['', 'basic']


def _stub_package(fullname, directory):
    import types
    m = types.ModuleType(fullname)
    m.__path__ = [directory]
    m.__package__ = fullname
    m.__file__ = os.path.join(directory, '__init__.py')
    m.__spec__ = importlib.util.spec_from_file_location(
        fullname, m.__file__, submodule_search_locations=[directory])
    sys.modules[fullname] = m
    parent, _, child = fullname.rpartition('.')
    if parent and parent in sys.modules:
        setattr(sys.modules[parent], child, m)
    return m


def install(full=False):
    """full=True: execute the package __init__ files as well (whole interpreter)."""
    global _installed
    if not _installed:
        sys.meta_path.insert(0, _Finder())
        if REPO not in sys.path:
            sys.path.insert(0, REPO)
        _installed = True
        if not full:
            for top in (LIFTED, 'pcbasic'):
                for rel in STUB_PACKAGES:
                    name = top + ('.' + rel if rel else '')
                    if name not in sys.modules:
                        _stub_package(name, os.path.join(REPO, 'pcbasic', *rel.split('.')) if rel
                                      else os.path.join(REPO, 'pcbasic'))


def lifted(rel):
    """Import pcbasic.<rel> from the lifted copy."""
    install()
    return importlib.import_module(LIFTED + ('.' + rel if rel else ''))


def pristine(rel):
    """Import pcbasic.<rel> unmodified."""
    install()
    return importlib.import_module('pcbasic' + ('.' + rel if rel else ''))


class Pkg(object):
    """Attribute-style access to modules of either copy: P.basic.values.numbers"""

    def __init__(self, symbolic, rel=''):
        self._symbolic = symbolic
        self._rel = rel
        self._mod = None

    def _module(self):
        if self._mod is None:
            self._mod = lifted(self._rel) if self._symbolic else pristine(self._rel)
        return self._mod

    def __getattr__(self, name):
        if name.startswith('__') or name in ('_symbolic', '_rel', '_mod'):
            raise AttributeError(name)
        m = self._module()
        if hasattr(m, name) and not isinstance(getattr(m, name), type(os)):
            return getattr(m, name)
        rel = (self._rel + '.' + name) if self._rel else name
        try:
            sub = Pkg(self._symbolic, rel)
            sub._module()
            return sub
        except ImportError:
            return getattr(m, name)
