"""
symx.core -- symbolic integers/booleans and the path explorer.

One path = one ordinary run of the real Python code over proxy objects.
Forks happen only in SBool.__bool__ (and in concretisation, which is a loop of
boolean forks).  The explorer re-executes the body with a decision prefix
(depth-first), z3 decides feasibility of every symbolic branch.

Integers have two interchangeable back ends:
  BV  -- z3 bit-vectors of adaptive width; each term carries a conservative
         interval [lo, hi]; every result is computed at a width in which it
         cannot wrap.  Python semantics (unbounded ints) are therefore kept.
  INT -- z3 mathematical integers; div/mod by symbolic divisors are encoded
         with z3's Euclidean div/mod and corrected to Python's floor semantics.
"""

import os
import time
import z3

MAXW = 600          # widest bit-vector we are prepared to build


class Inconclusive(BaseException):
    """A bound was hit / the solver said unknown / encoding too wide."""


class Unsupported(Inconclusive):
    """The real code did something with a symbolic value the engine does not model."""


class PathAbort(BaseException):
    """Raised by assume(False)-like situations: path is infeasible/cut."""


class WidthError(Inconclusive):
    pass


# ----------------------------------------------------------------------------------------------
# the current path context

CTX = None


def ctx():
    return CTX


def set_ctx(c):
    global CTX
    CTX = c


# ----------------------------------------------------------------------------------------------
# helpers

def bits_needed(lo, hi):
    """Minimal signed two's-complement width holding every value of [lo, hi]."""
    a = hi.bit_length() if hi >= 0 else (-hi - 1).bit_length()
    b = lo.bit_length() if lo >= 0 else (-lo - 1).bit_length()
    return max(a, b) + 1


def _fit(t, w):
    """Sign-extend or truncate the bit-vector t to width w."""
    s = t.size()
    if s == w:
        return t
    if s < w:
        return z3.SignExt(w - s, t)
    return z3.Extract(w - 1, 0, t)


def is_sym(x):
    return isinstance(x, (SInt, SBool))


# ----------------------------------------------------------------------------------------------
# booleans

class SBool(object):
    __slots__ = ('t',)

    def __init__(self, t):
        self.t = t

    def __bool__(self):
        return CTX.branch(self.t)

    # logical structure without forking
    def __and__(self, o):
        return s_and(self, o)

    __rand__ = __and__

    def __or__(self, o):
        return s_or(self, o)

    __ror__ = __or__

    def __invert__(self):
        return s_not(self)

    def __xor__(self, o):
        if isinstance(o, SBool):
            return mkbool(z3.Xor(self.t, o.t))
        if isinstance(o, bool):
            return s_not(self) if o else self
        return NotImplemented

    __rxor__ = __xor__

    def __eq__(self, o):
        if isinstance(o, SBool):
            return mkbool(self.t == o.t)
        if isinstance(o, bool):
            return self if o else s_not(self)
        if isinstance(o, (int, SInt)):
            return as_int(self) == o
        return NotImplemented

    def __ne__(self, o):
        r = self.__eq__(o)
        if r is NotImplemented:
            return r
        return s_not(r)

    __hash__ = None

    # bool is an int in Python
    def __int__(self):
        return as_int(self)

    def __index__(self):
        return 1 if bool(self) else 0

    def __add__(self, o):
        return as_int(self) + o

    __radd__ = __add__

    def __mul__(self, o):
        return o * as_int(self)

    __rmul__ = __mul__

    def __sub__(self, o):
        return as_int(self) - o

    def __rsub__(self, o):
        return o - as_int(self)

    def __lt__(self, o):
        return as_int(self) < o

    def __gt__(self, o):
        return as_int(self) > o

    def __le__(self, o):
        return as_int(self) <= o

    def __ge__(self, o):
        return as_int(self) >= o

    def __repr__(self):
        return 'SBool(%s)' % (self.t,)


def mkbool(t):
    """Make a bool from a z3 term; constant-fold."""
    t = z3.simplify(t) if not (z3.is_true(t) or z3.is_false(t)) else t
    if z3.is_true(t):
        return True
    if z3.is_false(t):
        return False
    return SBool(t)


def bterm(b):
    if isinstance(b, SBool):
        return b.t
    if isinstance(b, SInt):
        return (b != 0).t if isinstance(b != 0, SBool) else z3.BoolVal(bool(b != 0))
    return z3.BoolVal(bool(b))


def s_not(a):
    if isinstance(a, SBool):
        return mkbool(z3.Not(a.t))
    if isinstance(a, SInt):
        return a == 0
    return not a


def s_and(*xs):
    ts = []
    for x in xs:
        if isinstance(x, SBool):
            ts.append(x.t)
        elif isinstance(x, SInt):
            r = (x != 0)
            if isinstance(r, SBool):
                ts.append(r.t)
            elif not r:
                return False
        elif not x:
            return False
    if not ts:
        return True
    return mkbool(z3.And(*ts)) if len(ts) > 1 else SBool(ts[0])


def s_or(*xs):
    ts = []
    for x in xs:
        if isinstance(x, SBool):
            ts.append(x.t)
        elif isinstance(x, SInt):
            r = (x != 0)
            if isinstance(r, SBool):
                ts.append(r.t)
            elif r:
                return True
        elif x:
            return True
    if not ts:
        return False
    return mkbool(z3.Or(*ts)) if len(ts) > 1 else SBool(ts[0])


def s_implies(a, b):
    return s_or(s_not(a), b)


def s_iff(a, b):
    if not is_sym(a) and not is_sym(b):
        return bool(a) == bool(b)
    return mkbool(bterm(a) == bterm(b))


def as_int(b):
    """bool -> 0/1 integer"""
    if isinstance(b, SBool):
        if CTX is not None and CTX.backend == 'INT':
            return SInt(z3.If(b.t, z3.IntVal(1), z3.IntVal(0)), 0, 1)
        return SInt(z3.If(b.t, z3.BitVecVal(1, 2), z3.BitVecVal(0, 2)), 0, 1)
    if isinstance(b, SInt):
        return b
    return int(b)


def ite(c, a, b):
    """If-then-else over ints / bools, symbolic or concrete."""
    if not isinstance(c, (SBool, SInt)):
        return a if c else b
    if isinstance(c, SInt):
        c = (c != 0)
        if not isinstance(c, SBool):
            return a if c else b
    if isinstance(a, (SBool, bool)) and isinstance(b, (SBool, bool)) and not (
            isinstance(a, bool) and isinstance(b, bool) and False):
        return mkbool(z3.If(c.t, bterm(a), bterm(b)))
    a = as_int(a) if isinstance(a, (SBool, bool)) else a
    b = as_int(b) if isinstance(b, (SBool, bool)) else b
    if not isinstance(a, (int, SInt)) or not isinstance(b, (int, SInt)):
        raise Unsupported('ite over %r / %r' % (type(a), type(b)))
    if isinstance(a, int) and isinstance(b, int) and a == b:
        return a
    alo, ahi = rng(a)
    blo, bhi = rng(b)
    lo, hi = min(alo, blo), max(ahi, bhi)
    if _is_int_backend(a, b):
        return SInt(z3.If(c.t, _iterm(a), _iterm(b)), lo, hi)
    w = bits_needed(lo, hi)
    return SInt(z3.If(c.t, _bvterm(a, w), _bvterm(b, w)), lo, hi)


def rng(x):
    if isinstance(x, SInt):
        return x.lo, x.hi
    if isinstance(x, SBool):
        return 0, 1
    x = int(x)
    return x, x


def _is_int_backend(*xs):
    for x in xs:
        if isinstance(x, SInt):
            return not z3.is_bv(x.t)
    return CTX is not None and CTX.backend == 'INT'


def _bvterm(x, w):
    if isinstance(x, SInt):
        return _fit(x.t, w)
    return z3.BitVecVal(int(x), w)


def _iterm(x):
    if isinstance(x, SInt):
        return x.t
    return z3.IntVal(int(x))


# ----------------------------------------------------------------------------------------------
# integers

INF = float('inf')


class SInt(object):
    """Symbolic Python int."""
    __slots__ = ('t', 'lo', 'hi')

    def __init__(self, t, lo, hi):
        self.t = t
        self.lo = lo
        self.hi = hi

    # -- construction helpers --------------------------------------------------

    @staticmethod
    def _mk(t, lo, hi):
        if lo == hi and lo not in (INF, -INF):
            return lo
        return SInt(t, lo, hi)

    def _isint(self):
        return not z3.is_bv(self.t)

    def _coerce(self, o):
        if isinstance(o, SInt):
            return o
        if isinstance(o, SBool):
            return as_int(o)
        if isinstance(o, bool):
            return int(o)
        if isinstance(o, int):
            return o
        return None

    # -- arithmetic ----------------------------------------------------------------

    def _arith(self, o, op, swap=False):
        o = self._coerce(o)
        if o is None:
            return NotImplemented
        a, b = (o, self) if swap else (self, o)
        alo, ahi = rng(a)
        blo, bhi = rng(b)
        if op == '+':
            lo, hi = alo + blo, ahi + bhi
        elif op == '-':
            lo, hi = alo - bhi, ahi - blo
        else:
            cs = [alo * blo, alo * bhi, ahi * blo, ahi * bhi]
            lo, hi = min(cs), max(cs)
        if self._isint():
            ta, tb = _iterm(a), _iterm(b)
            if op == '*' and isinstance(a, SInt) and isinstance(b, SInt) and CTX is not None \
                    and CTX.abstract_products:
                return CTX.abstract_product(a, b, lo, hi)
            t = ta + tb if op == '+' else ta - tb if op == '-' else ta * tb
            return SInt._mk(t, lo, hi)
        if op == '*' and isinstance(a, SInt) and isinstance(b, SInt) and CTX is not None \
                and CTX.abstract_products:
            return CTX.abstract_product(a, b, lo, hi)
        w = bits_needed(lo, hi)
        if w > MAXW:
            raise WidthError('width %d' % w)
        ta, tb = _bvterm(a, w), _bvterm(b, w)
        t = ta + tb if op == '+' else ta - tb if op == '-' else ta * tb
        return SInt._mk(t, lo, hi)

    def __add__(self, o):
        return self._arith(o, '+')

    def __radd__(self, o):
        return self._arith(o, '+', True)

    def __sub__(self, o):
        return self._arith(o, '-')

    def __rsub__(self, o):
        return self._arith(o, '-', True)

    def __mul__(self, o):
        if isinstance(o, (bytes, bytearray, list, tuple, str)):
            return o * self.__index__()
        return self._arith(o, '*')

    def __rmul__(self, o):
        if isinstance(o, (bytes, bytearray, list, tuple, str)):
            return o * self.__index__()
        return self._arith(o, '*', True)

    def __neg__(self):
        if self._isint():
            return SInt(-self.t, -self.hi, -self.lo)
        lo, hi = -self.hi, -self.lo
        w = bits_needed(lo, hi)
        return SInt(-_fit(self.t, w), lo, hi)

    def __pos__(self):
        return self

    def __abs__(self):
        if self.lo >= 0:
            return self
        if self.hi <= 0:
            return -self
        return ite(self < 0, -self, self)

    def __invert__(self):
        return -self - 1

    # -- division ----------------------------------------------------------------------

    def _divmod(self, o, swap=False):
        o = self._coerce(o)
        if o is None:
            return NotImplemented
        a, b = (o, self) if swap else (self, o)
        blo, bhi = rng(b)
        if blo <= 0 <= bhi:
            # the real code must have excluded zero; decide it here
            if isinstance(b, SInt):
                if b == 0:
                    raise ZeroDivisionError('integer division or modulo by zero')
                # path condition now has b != 0; tighten nothing, continue
            elif b == 0:
                raise ZeroDivisionError('integer division or modulo by zero')
        alo, ahi = rng(a)
        # quotient interval (floor division): crude but conservative
        m = max(abs(alo), abs(ahi))
        qlo, qhi = -m - 1, m
        if blo > 0:
            qlo, qhi = min(alo // blo, alo // bhi), max(ahi // blo, ahi // bhi)
        elif bhi < 0:
            cs = [alo // blo, alo // bhi, ahi // blo, ahi // bhi]
            qlo, qhi = min(cs), max(cs)
        bm = max(abs(blo), abs(bhi))
        if blo > 0:
            rlo, rhi = 0, bhi - 1
        elif bhi < 0:
            rlo, rhi = blo + 1, 0
        else:
            rlo, rhi = -bm + 1, bm - 1
        if _is_int_backend(a, b):
            ta, tb = _iterm(a), _iterm(b)
            if isinstance(b, int) and b > 0:
                q = ta / tb            # z3 Int div == floor for positive divisor
                r = ta % tb
            else:
                # axiomatised: fresh q, r with a = b*q + r and r in [0,b) resp. (b,0]  (exact:
                # q and r are uniquely determined, this is Python's floor division)
                # (memoised per operand pair: floor division is a function)
                key = (ta.get_id(), tb.get_id())
                if key not in CTX.divisions:
                    qv = CTX.fresh_aux('quot', qlo, qhi)
                    rv = CTX.fresh_aux('rem', rlo, rhi)
                    CTX.add(z3.And(ta == tb * qv.t + rv.t,
                                   z3.Implies(tb > 0, z3.And(rv.t >= 0, rv.t < tb)),
                                   z3.Implies(tb < 0, z3.And(rv.t <= 0, rv.t > tb))))
                    CTX.divisions[key] = (qv.t, rv.t, ta, tb)
                q, r = CTX.divisions[key][:2]
            return SInt._mk(q, qlo, qhi), SInt._mk(r, rlo, rhi)
        w = max(bits_needed(alo, ahi), bits_needed(blo, bhi), bits_needed(qlo, qhi)) + 1
        if w > MAXW:
            raise WidthError('width %d' % w)
        ta, tb = _bvterm(a, w), _bvterm(b, w)
        # signed truncating division, then fix to floor
        qt = ta / tb           # bvsdiv
        rt = z3.SRem(ta, tb)   # sign follows dividend
        fix = z3.And(rt != 0, (rt < 0) != (tb < 0))
        q = z3.If(fix, qt - 1, qt)
        r = z3.If(fix, rt + tb, rt)
        wq, wr = bits_needed(qlo, qhi), bits_needed(rlo, rhi)
        return SInt._mk(_fit(q, wq), qlo, qhi), SInt._mk(_fit(r, wr), rlo, rhi)

    def __floordiv__(self, o):
        r = self._divmod(o)
        return r if r is NotImplemented else r[0]

    def __rfloordiv__(self, o):
        r = self._divmod(o, True)
        return r if r is NotImplemented else r[0]

    def __mod__(self, o):
        r = self._divmod(o)
        return r if r is NotImplemented else r[1]

    def __rmod__(self, o):
        if isinstance(o, (bytes, str)):
            return NotImplemented
        r = self._divmod(o, True)
        return r if r is NotImplemented else r[1]

    def __divmod__(self, o):
        return self._divmod(o)

    def __rdivmod__(self, o):
        return self._divmod(o, True)

    def __truediv__(self, o):
        # int / (power of two) is exact in binary floating point as long as the int has fewer
        # than 53 bits: keep it as an exact dyadic number
        if isinstance(o, (int, float)) and o > 0 and float(o) == int(o) and \
                (int(o) & (int(o) - 1)) == 0 and max(abs(self.lo), abs(self.hi)) < (1 << 53):
            return SDyadic(self, int(o).bit_length() - 1)
        raise Unsupported('true division of symbolic int')

    def __rtruediv__(self, o):
        raise Unsupported('true division by symbolic int')

    def __pow__(self, o, m=None):
        if isinstance(o, int) and 0 <= o <= 4 and m is None:
            r = 1
            for _ in range(o):
                r = r * self
            return r
        raise Unsupported('pow of symbolic int')

    def __rpow__(self, o):
        if isinstance(o, int) and o == 2 and self.lo >= 0:
            return 1 << self
        raise Unsupported('rpow of symbolic int')

    # -- shifts ----------------------------------------------------------------------------

    def __lshift__(self, o):
        o = self._coerce(o)
        if o is None:
            return NotImplemented
        return _shift(self, o, True)

    def __rlshift__(self, o):
        o = self._coerce(o)
        if o is None:
            return NotImplemented
        return _shift(o, self, True)

    def __rshift__(self, o):
        o = self._coerce(o)
        if o is None:
            return NotImplemented
        return _shift(self, o, False)

    def __rrshift__(self, o):
        o = self._coerce(o)
        if o is None:
            return NotImplemented
        return _shift(o, self, False)

    # -- bitwise ---------------------------------------------------------------------------

    def _bit(self, o, op):
        o = self._coerce(o)
        if o is None:
            return NotImplemented
        a, b = self, o
        alo, ahi = rng(a)
        blo, bhi = rng(b)
        if _is_int_backend(a, b):
            # only masks with 2^k-1 / ... are supported in the Int back end
            if op == '&' and isinstance(b, int) and b >= 0 and (b & (b + 1)) == 0:
                return SInt._mk(a.t % (b + 1), 0, b)
            if op == '&' and isinstance(b, int) and b > 0 and alo >= 0:
                low = (b & -b)                       # lowest set bit
                if ((b // low) & (b // low + 1)) == 0 and ahi <= (b | (low - 1)):
                    # mask = contiguous ones from bit log2(low) up to the top of a's range
                    return SInt._mk(a.t - a.t % low, 0, ahi - (ahi % low) if True else ahi)
            if op == '&' and isinstance(b, int) and b >= 0 and alo >= 0:
                # general non-negative constant mask: sum of selected bits
                t = z3.IntVal(0)
                k = 0
                bb = b
                while bb:
                    if bb & 1:
                        t = t + ((a.t / (1 << k)) % 2) * (1 << k)
                    bb >>= 1
                    k += 1
                return SInt._mk(t, 0, min(b, ahi))
            if op == '&' and isinstance(b, int) and b >= 0 and alo >= 0:
                pass
            if op == '|' and isinstance(b, int) and b >= 0 and alo >= 0:
                # set the bits of the constant that are not yet set
                t = a.t
                k, bb = 0, b
                while bb:
                    if bb & 1:
                        t = t + (1 - (a.t / (1 << k)) % 2) * (1 << k)
                    bb >>= 1
                    k += 1
                return SInt._mk(t, max(alo, b), ahi | b if (ahi | b) >= ahi else ahi + b)
            raise Unsupported('bit operation %s in Int back end' % op)
        w = max(bits_needed(alo, ahi), bits_needed(blo, bhi))
        ta, tb = _bvterm(a, w), _bvterm(b, w)
        if op == '&':
            t = ta & tb
            if alo >= 0 and blo >= 0:
                lo, hi = 0, min(ahi, bhi)
            elif alo >= 0:
                lo, hi = 0, ahi
            elif blo >= 0:
                lo, hi = 0, bhi
            else:
                lo, hi = -(1 << (w - 1)), (1 << (w - 1)) - 1
        elif op == '|':
            t = ta | tb
            if alo >= 0 and blo >= 0:
                lo, hi = max(alo, blo), (1 << max(ahi.bit_length(), bhi.bit_length())) - 1
            else:
                lo, hi = -(1 << (w - 1)), (1 << (w - 1)) - 1
                if alo >= 0 or blo >= 0:
                    pass
        else:
            t = ta ^ tb
            if alo >= 0 and blo >= 0:
                lo, hi = 0, (1 << max(ahi.bit_length(), bhi.bit_length())) - 1
            else:
                lo, hi = -(1 << (w - 1)), (1 << (w - 1)) - 1
        return SInt._mk(_fit(t, bits_needed(lo, hi)), lo, hi)

    def __and__(self, o):
        return self._bit(o, '&')

    __rand__ = __and__

    def __or__(self, o):
        return self._bit(o, '|')

    __ror__ = __or__

    def __xor__(self, o):
        return self._bit(o, '^')

    __rxor__ = __xor__

    # -- comparisons ---------------------------------------------------------------------

    def _cmp(self, o, op):
        o = self._coerce(o)
        if o is None:
            return NotImplemented
        alo, ahi = self.lo, self.hi
        blo, bhi = rng(o)
        # interval folding
        if op == '<':
            if ahi < blo:
                return True
            if alo >= bhi:
                return False
        elif op == '<=':
            if ahi <= blo:
                return True
            if alo > bhi:
                return False
        elif op == '>':
            if alo > bhi:
                return True
            if ahi <= blo:
                return False
        elif op == '>=':
            if alo >= bhi:
                return True
            if ahi < blo:
                return False
        elif op == '==':
            if ahi < blo or alo > bhi:
                return False
        elif op == '!=':
            if ahi < blo or alo > bhi:
                return True
        if _is_int_backend(self, o):
            ta, tb = self.t, _iterm(o)
        else:
            w = max(bits_needed(alo, ahi), bits_needed(blo, bhi))
            ta, tb = _bvterm(self, w), _bvterm(o, w)
        if op == '<':
            t = ta < tb
        elif op == '<=':
            t = ta <= tb
        elif op == '>':
            t = ta > tb
        elif op == '>=':
            t = ta >= tb
        elif op == '==':
            t = ta == tb
        else:
            t = ta != tb
        return mkbool(t)

    def __lt__(self, o):
        return self._cmp(o, '<')

    def __le__(self, o):
        return self._cmp(o, '<=')

    def __gt__(self, o):
        return self._cmp(o, '>')

    def __ge__(self, o):
        return self._cmp(o, '>=')

    def __eq__(self, o):
        return self._cmp(o, '==')

    def __ne__(self, o):
        return self._cmp(o, '!=')

    def __hash__(self):
        # hashing (dict / set lookup by a symbolic int) enumerates the feasible values, one path
        # each; the equality test that follows the hash is then decided by the path condition
        return hash(CTX.concretize(self))

    def __bool__(self):
        r = self._cmp(0, '!=')
        return bool(r)

    def __int__(self):
        return self

    def __trunc__(self):
        return self

    def __index__(self):
        return CTX.concretize(self)

    def __float__(self):
        raise Unsupported('float() of a symbolic int')

    def __round__(self, n=None):
        return self

    def bit_length(self):
        a = abs(self)
        if not isinstance(a, SInt):
            return int(a).bit_length()
        top = max(abs(self.lo), abs(self.hi)).bit_length()
        r = 0
        for k in range(1, top + 1):
            r = ite(a >= (1 << (k - 1)), k, r)
        return r

    def __repr__(self):
        return 'SInt(%s in [%s,%s])' % (z3.simplify(self.t) if self.t.sexpr().__len__() < 200 else '...',
                                        self.lo, self.hi)

    def __format__(self, spec):
        raise Unsupported('formatting a symbolic int')


class SDyadic(object):
    """Exact value num / 2^k (result of int / 2^k); supports what pcbasic does with it."""

    def __init__(self, num, k):
        self.num, self.k = num, k

    def __trunc__(self):
        a = abs(self.num)
        q = a >> self.k
        return ite(self.num < 0, -q, q)

    __int__ = __trunc__

    def __floor__(self):
        return self.num >> self.k

    def __neg__(self):
        return SDyadic(-self.num, self.k)

    def __float__(self):
        raise Unsupported('float() of a symbolic dyadic number')


def _shift(a, b, left):
    """a << b or a >> b, any of them symbolic."""
    alo, ahi = rng(a)
    blo, bhi = rng(b)
    if blo < 0:
        if isinstance(b, SInt):
            if b < 0:
                raise ValueError('negative shift count')
            blo = 0
        else:
            raise ValueError('negative shift count')
    if bhi > 4096:
        # tighten through the solver
        bhi = CTX.upper_bound(b, 4096)
    if left:
        cs = [alo << blo, alo << bhi, ahi << blo, ahi << bhi]
    else:
        cs = [alo >> blo, alo >> bhi, ahi >> blo, ahi >> bhi]
    lo, hi = min(cs), max(cs)
    if _is_int_backend(a, b):
        if isinstance(b, int):
            if left:
                return SInt._mk(_iterm(a) * (1 << b), lo, hi)
            return SInt._mk(_iterm(a) / (1 << b), lo, hi)
        # symbolic shift count: case split over the (small) range
        if bhi - blo > 130:
            raise Unsupported('wide symbolic shift in Int back end')
        t = None
        for k in range(bhi, blo - 1, -1):
            e = _iterm(a) * (1 << k) if left else _iterm(a) / (1 << k)
            t = e if t is None else z3.If(b.t == k, e, t)
        return SInt._mk(t, lo, hi)
    w = max(bits_needed(lo, hi), bits_needed(alo, ahi), bits_needed(blo, bhi) + 1)
    if w > MAXW:
        raise WidthError('width %d in shift' % w)
    ta, tb = _bvterm(a, w), _bvterm(b, w)
    t = (ta << tb) if left else (ta >> tb)     # >> on z3 BitVecRef is arithmetic
    return SInt._mk(_fit(t, bits_needed(lo, hi)), lo, hi)


def s_min(*xs):
    if len(xs) == 1:
        xs = tuple(xs[0])
    r = xs[0]
    for x in xs[1:]:
        r = ite(x < r, x, r)
    return r


def s_max(*xs):
    if len(xs) == 1:
        xs = tuple(xs[0])
    r = xs[0]
    for x in xs[1:]:
        r = ite(x > r, x, r)
    return r


# ----------------------------------------------------------------------------------------------
# path context + explorer

class Stats(object):
    def __init__(self):
        self.queries = 0
        self.solver_time = 0.0
        self.unknown = 0
        self.cvc5_decided = 0


class PathCtx(object):
    """State of one path (one execution of the body)."""

    def __init__(self, explorer, prefix):
        self.ex = explorer
        self.backend = explorer.backend
        self.abstract_products = explorer.abstract_products
        self.prefix = prefix
        self.trace = []           # [(kind, value, forced)]
        self.pc = []              # z3 terms
        self.solver = z3.Solver()
        self.solver.set('timeout', explorer.branch_timeout_ms)
        self.model = None         # a model of pc, if we have one
        self.nvars = 0
        self.inputs = {}          # name -> SInt
        self.products = {}
        self.divisions = {}
        self.sym_decisions = 0

    # -- inputs ---------------------------------------------------------------------------

    def fresh_int(self, name, lo, hi):
        if name in self.inputs:
            raise KeyError('duplicate input ' + name)
        if self.backend == 'INT':
            v = z3.Int(name)
            self.add(z3.And(v >= lo, v <= hi))
            x = SInt(v, lo, hi)
        else:
            if lo >= 0:
                # unsigned variable of minimal width, zero-extended by one bit
                w = max(hi.bit_length(), 1)
                v = z3.BitVec(name, w)
                x = SInt(z3.ZeroExt(1, v), lo, hi)
                if lo != 0 or hi != (1 << w) - 1:
                    self.add(z3.And(z3.UGE(v, lo), z3.ULE(v, hi)))
            else:
                w = bits_needed(lo, hi)
                v = z3.BitVec(name, w)
                x = SInt(v, lo, hi)
                if lo != -(1 << (w - 1)) or hi != (1 << (w - 1)) - 1:
                    self.add(z3.And(v >= lo, v <= hi))
        self.inputs[name] = (x, v)
        return x

    def fresh_aux(self, stem, lo, hi):
        self.nvars += 1
        name = '%s!%d' % (stem, self.nvars)
        if self.backend == 'INT':
            v = z3.Int(name)
            self.add(z3.And(v >= lo, v <= hi))
            return SInt(v, lo, hi)
        w = bits_needed(lo, hi)
        v = z3.BitVec(name, w)
        self.add(z3.And(v >= lo, v <= hi))
        return SInt(v, lo, hi)

    def abstract_product(self, a, b, lo, hi):
        ka, kb = a.t.get_id(), b.t.get_id()
        key = (min(ka, kb), max(ka, kb))
        if key not in self.products:
            p = self.fresh_aux('prod', lo, hi)
            self.products[key] = (p, a, b)
        return self.products[key][0]

    def exact_product_terms(self):
        """Constraints tying every abstracted product to the real product (refinement)."""
        out = []
        for (p, a, b) in self.products.values():
            if z3.is_bv(p.t):
                w = p.t.size()
                out.append(p.t == _fit(a.t, w) * _fit(b.t, w))
            else:
                out.append(p.t == a.t * b.t)
        return out

    # -- path condition ---------------------------------------------------------------------

    def add(self, t, keep_model=False):
        self.pc.append(t)
        self.solver.add(t)
        if not keep_model:
            self.model = None

    def _check(self, extra=None):
        """Satisfiability of pc (+ extra). Returns 'sat'/'unsat'/'unknown' and keeps the model."""
        st = self.ex.stats
        t0 = time.time()
        st.queries += 1
        if extra is not None:
            self.solver.push()
            self.solver.add(extra)
        r = self.solver.check()
        res = str(r)
        m = None
        if res == 'sat':
            m = self.solver.model()
        if extra is not None:
            self.solver.pop()
        if res == 'unknown':
            # second opinion from a fresh tactic solver
            res, m = self.ex.hard_check(self.pc + ([extra] if extra is not None else []))
        st.solver_time += time.time() - t0
        if res == 'unknown':
            st.unknown += 1
        return res, m

    def _model_says(self, t):
        if self.model is None:
            return None
        try:
            v = self.model.eval(t, model_completion=True)
        except z3.Z3Exception:
            return None
        if z3.is_true(v):
            return True
        if z3.is_false(v):
            return False
        return None

    def branch(self, t):
        """Decide a symbolic branch condition; returns a Python bool."""
        i = len(self.trace)
        if i < len(self.prefix):
            kind, val, forced = self.prefix[i]
            assert kind == 'b', 'non-deterministic re-execution (%r)' % (self.prefix[i],)
            self.trace.append(self.prefix[i])
            self.add(t if val else z3.Not(t))
            return val
        if len(self.trace) >= self.ex.max_decisions:
            raise Inconclusive('decision bound %d hit' % self.ex.max_decisions)
        guess = self._model_says(t)
        if guess is None:
            r, m = self._check(t)
            if r == 'unknown':
                raise Inconclusive('solver unknown at branch')
            if r == 'sat':
                can_true, mt = True, m
                r2, m2 = self._check(z3.Not(t))
                if r2 == 'unknown':
                    raise Inconclusive('solver unknown at branch')
                can_false, mf = (r2 == 'sat'), m2
            else:
                can_true, mt = False, None
                can_false, mf = True, None     # pc is satisfiable by construction
        elif guess:
            can_true, mt = True, self.model
            r2, m2 = self._check(z3.Not(t))
            if r2 == 'unknown':
                raise Inconclusive('solver unknown at branch')
            can_false, mf = (r2 == 'sat'), m2
        else:
            can_false, mf = True, self.model
            r2, m2 = self._check(t)
            if r2 == 'unknown':
                raise Inconclusive('solver unknown at branch')
            can_true, mt = (r2 == 'sat'), m2
        if can_true and can_false:
            self.sym_decisions += 1
            first = self.ex.first_choice
            val = first
            self.trace.append(('b', val, False))
            self.ex.push_alternative(self.trace[:-1] + [('b', not val, False)])
            self.model = mt if val else mf
        elif can_true:
            val = True
            self.trace.append(('b', True, True))
            self.model = mt
        elif can_false:
            val = False
            self.trace.append(('b', False, True))
            self.model = mf
        else:
            raise PathAbort('infeasible path condition')
        self.add(t if val else z3.Not(t), keep_model=True)
        return val

    def assume(self, c):
        """Constrain the inputs (precondition). Infeasible -> path is dropped."""
        if isinstance(c, SInt):
            c = (c != 0)
        if not isinstance(c, SBool):
            if not c:
                raise PathAbort('assumption false')
            return
        if self._model_says(c.t) is True:
            self.add(c.t, keep_model=True)
            return
        self.add(c.t)
        r, m = self._check()
        if r == 'unknown':
            raise Inconclusive('solver unknown at assume')
        if r == 'unsat':
            raise PathAbort('assumption infeasible')
        self.model = m

    def concretize(self, x, limit=None):
        """Turn a symbolic int into a concrete one, forking once per feasible value."""
        if not isinstance(x, SInt):
            return int(x)
        limit = limit or self.ex.max_fanout
        n = 0
        while True:
            i = len(self.trace)
            if i < len(self.prefix):
                kind, v, taken = self.prefix[i][0], self.prefix[i][1], self.prefix[i][2]
                assert kind == 'v', 'non-deterministic re-execution'
                self.trace.append(self.prefix[i])
                eqp = (x == v)
                if isinstance(eqp, SBool):
                    self.add(eqp.t if taken else z3.Not(eqp.t))
                if taken:
                    return v
                n += 1
                continue
            if n >= limit:
                raise Inconclusive('concretisation fan-out bound %d hit' % limit)
            if self.model is None:
                r, m = self._check()
                if r != 'sat':
                    if r == 'unsat':
                        raise PathAbort('infeasible')
                    raise Inconclusive('solver unknown in concretize')
                self.model = m
            v = self.model.eval(x.t, model_completion=True)
            v = v.as_signed_long() if z3.is_bv(v) else v.as_long()
            eq = (x == v)
            if not isinstance(eq, SBool):
                if eq:
                    return v
                raise Inconclusive('model value outside interval')
            # is another value possible?
            r2, m2 = self._check(z3.Not(eq.t))
            if r2 == 'unknown':
                raise Inconclusive('solver unknown in concretize')
            if r2 == 'sat':
                self.sym_decisions += 1
                self.trace.append(('v', v, True))
                self.ex.push_alternative(self.trace[:-1] + [('v', v, False)])
            else:
                self.trace.append(('v', v, True))
            self.add(eq.t, keep_model=True)
            return v

    def upper_bound(self, x, cap):
        """Smallest power-of-two-ish upper bound of x under pc, at most cap (else Inconclusive)."""
        b = 64
        while b <= cap:
            r, _ = self._check((x > b).t if isinstance(x > b, SBool) else z3.BoolVal(bool(x > b)))
            if r == 'unsat':
                return b
            if r == 'unknown':
                break
            b *= 2
        raise Inconclusive('unbounded shift count')

    # -- queries ---------------------------------------------------------------------------------

    def query(self, extra_terms, timeout_ms=None):
        """sat/unsat/unknown of pc + extra, with model; uses the tactic solver directly."""
        st = self.ex.stats
        t0 = time.time()
        st.queries += 1
        res, m = self.ex.hard_check(self.pc + list(extra_terms), timeout_ms)
        st.solver_time += time.time() - t0
        if res == 'unknown':
            st.unknown += 1
        return res, m

    def current_model(self):
        if self.model is None:
            r, m = self._check()
            if r == 'unsat':
                raise PathAbort('infeasible')
            if r != 'sat':
                raise Inconclusive('solver unknown for path model')
            self.model = m
        return self.model


def model_value(m, x):
    """Evaluate a symbolic (or concrete) scalar under a model -> Python value."""
    if isinstance(x, SInt):
        v = m.eval(x.t, model_completion=True)
        return v.as_signed_long() if z3.is_bv(v) else v.as_long()
    if isinstance(x, SBool):
        return z3.is_true(m.eval(x.t, model_completion=True))
    return x


class Explorer(object):
    """Depth-first exploration by re-execution."""

    def __init__(self, backend='BV', abstract_products=False, max_decisions=4000,
                 max_paths=200000, max_fanout=64, branch_timeout_ms=5000,
                 query_timeout_ms=60000, first_choice=True):
        self.backend = backend
        self.abstract_products = abstract_products
        self.max_decisions = max_decisions
        self.max_paths = max_paths
        self.max_fanout = max_fanout
        self.branch_timeout_ms = branch_timeout_ms
        self.query_timeout_ms = query_timeout_ms
        self.first_choice = first_choice
        self.stats = Stats()
        self.work = []
        self.paths = 0
        self.decisions = 0

    def push_alternative(self, prefix):
        self.work.append(prefix)

    def _z3_check(self, terms, timeout_ms, seed=None):
        s = z3.Solver() if self.backend == 'INT' else z3.SolverFor('QF_BV')
        s.set('timeout', int(timeout_ms))
        if seed is not None:
            s.set('random_seed', seed)
        for t in terms:
            s.add(t)
        r = str(s.check())
        return r, (s.model() if r == 'sat' else None), s

    def hard_check(self, terms, timeout_ms=None):
        """Decide a query outside the incremental solver: z3 (short), then the cvc5 binary on
        the dumped SMT-LIB2 text, then z3 with the full budget."""
        timeout_ms = timeout_ms or self.query_timeout_ms
        first = min(timeout_ms, 10000)
        r, m, s = self._z3_check(terms, first)
        if r != 'unknown':
            return r, m
        r2, vals = self._cvc5_check(s, terms, timeout_ms)
        if r2 == 'unsat':
            self.stats.cvc5_decided += 1
            return 'unsat', None
        if r2 == 'sat' and vals is not None:
            # rebuild a z3 model from the values cvc5 gave to the free constants
            s2 = z3.Solver() if self.backend == 'INT' else z3.SolverFor('QF_BV')
            s2.set('timeout', 20000)
            for t in terms:
                s2.add(t)
            for c, v in vals:
                s2.add(c == v)
            if str(s2.check()) == 'sat':
                self.stats.cvc5_decided += 1
                return 'sat', s2.model()
        if timeout_ms > first:
            # z3's non-linear and bit-vector search is sensitive to timing and seed: a query it decides in
            # seconds on one attempt can run out the clock on another.  Spend the remaining budget on
            # several attempts with different seeds (shorter ones first) rather than on a single run.
            remaining = timeout_ms - first
            r, m = 'unknown', None
            for k, share in enumerate((0.15, 0.25, 0.6)):
                r, m, s = self._z3_check(terms, max(1000, int(remaining * share)), seed=k + 1)
                if r != 'unknown':
                    break
            if r == 'unknown' and os.environ.get('SYMX_DUMP'):
                self._dumpn = getattr(self, '_dumpn', 0) + 1
                with open(os.path.join(os.environ['SYMX_DUMP'],
                                       'q%d_%d.smt2' % (os.getpid(), self._dumpn)), 'w') as f:
                    f.write(s.to_smt2())
            return r, m
        return 'unknown', None

    def _cvc5_check(self, solver, terms, timeout_ms):
        import shutil, subprocess, tempfile, re
        exe = shutil.which('cvc5')
        if not exe:
            return 'unknown', None
        consts = {}
        def walk(t, seen=set()):
            stack = [t]
            while stack:
                x = stack.pop()
                if x.get_id() in seen:
                    continue
                seen.add(x.get_id())
                if z3.is_const(x) and x.decl().kind() == z3.Z3_OP_UNINTERPRETED:
                    consts[x.decl().name()] = x
                stack.extend(x.children())
        for t in terms:
            walk(t)
        text = solver.to_smt2()
        logic = 'QF_NIA' if self.backend == 'INT' else 'QF_BV'
        text = '(set-logic %s)\n(set-option :produce-models true)\n' % logic + \
            text.replace('(check-sat)', '(check-sat)\n' + ''.join(
                '(get-value (|%s|))\n' % n for n in consts))
        fd, path = tempfile.mkstemp(suffix='.smt2', prefix='symx_')
        try:
            with os.fdopen(fd, 'w') as f:
                f.write(text)
            try:
                p = subprocess.run([exe, '--tlimit=%d' % int(timeout_ms), path],
                                   capture_output=True, text=True, timeout=timeout_ms / 1000.0 + 10)
            except subprocess.TimeoutExpired:
                return 'unknown', None
            out = p.stdout
            lines = out.strip().splitlines()
            if not lines:
                return 'unknown', None
            if lines[0].strip() == 'unsat':
                # (get-value after unsat yields error lines; anything before the verdict would
                # have made the first line an error)
                return 'unsat', None
            if lines[0].strip() != 'sat' or '(error' in out or '(error' in p.stderr:
                return 'unknown', None
            vals = []
            for m in re.finditer(r'\(\(\|?([^|()\s]+)\|?\s+(\(-\s*\d+\)|-?\d+|#b[01]+|#x[0-9a-fA-F]+)\)\)', out):
                name, v = m.group(1), m.group(2)
                if name not in consts:
                    continue
                c = consts[name]
                if v.startswith('#b'):
                    val = z3.BitVecVal(int(v[2:], 2), c.size())
                elif v.startswith('#x'):
                    val = z3.BitVecVal(int(v[2:], 16), c.size())
                else:
                    val = z3.IntVal(int(v.replace('(', '').replace(')', '').replace(' ', '')))
                vals.append((c, val))
            return 'sat', vals
        finally:
            os.unlink(path)

    def run(self, body, on_path):
        """body(pathctx) runs the harness once; on_path(pathctx, outcome) is called per path.

        outcome is ('ok', value) | ('abort', msg) | ('inconclusive', msg)
        """
        self.work = [[]]
        while self.work:
            if self.paths >= self.max_paths:
                on_path(None, ('inconclusive', 'path bound %d hit' % self.max_paths))
                return
            prefix = self.work.pop()
            pc = PathCtx(self, prefix)
            set_ctx(pc)
            try:
                try:
                    val = body(pc)
                    outcome = ('ok', val)
                except PathAbort as e:
                    outcome = ('abort', str(e))
                except Inconclusive as e:
                    outcome = ('inconclusive', '%s: %s' % (type(e).__name__, e))
                if outcome[0] != 'abort':
                    self.paths += 1
                    self.decisions += len(pc.trace)
                on_path(pc, outcome)
            finally:
                set_ctx(None)
