#!/usr/bin/env python3
"""Summarise /verif/seeded/*/meta.json as a markdown table (stdout)."""
import glob, json, os, collections
HERE = os.path.dirname(os.path.dirname(os.path.abspath(__file__)))
rows = collections.OrderedDict()
for f in sorted(glob.glob(os.path.join(HERE, 'seeded', '*', 'meta.json'))):
    m = json.load(open(f))
    rows.setdefault(m['property'], []).append(m)
tot = det = 0
print('| property | seeds | detected by the quick check | missed |')
print('|---|---|---|---|')
for p, ms in rows.items():
    # a seed whose demonstration no longer fails on the current tree (a later fix: commit removed the
    # defect it relied on) is listed but not counted
    moot = [m['name'] + ' (moot)' for m in ms if not m.get('kept', True)]
    ms = [m for m in ms if m.get('kept', True)]
    d = [m['name'] for m in ms if m.get('detected')]
    n = [m['name'] for m in ms if not m.get('detected')]
    tot += len(ms); det += len(d)
    print('| %s | %d | %s | %s |' % (p, len(ms), ', '.join(d) or '-', ', '.join(n + moot) or '-'))
print()
print('total %d, detected %d' % (tot, det))
