#!/usr/bin/env python3
"""Verify a seeded change and run the property's check against it.

usage: seedcheck.py <PID> <srcdir> <name> [--tier quick]
  srcdir contains patch.diff, demo.py, README.txt (as written by the sub-agent)
Creates /verif/seeded/<name>/ with patch.diff, demo.py, meta.json.
All work happens in a scratch worktree (SYMX_REPO points the check at it); /repo is not touched.
"""
import json, os, shutil, subprocess, sys, time

pid, src, name = sys.argv[1:4]
tier = sys.argv[5] if len(sys.argv) > 5 else 'quick'
VERIF = os.path.dirname(os.path.dirname(os.path.abspath(__file__)))
wt = '/tmp/wt_verify_%s' % name
dst = os.path.join(VERIF, 'seeded', name)
os.makedirs(dst, exist_ok=True)


def sh(cmd, **kw):
    return subprocess.run(cmd, shell=True, capture_output=True, text=True, **kw)


sh('git -C /repo worktree remove --force %s' % wt)
r = sh('git -C /repo worktree add -q --detach %s HEAD' % wt)
assert r.returncode == 0, r.stderr
meta = {'property': pid, 'name': name, 'base_commit': sh('git -C /repo log --format=%h -1').stdout.strip()}
try:
    env = dict(os.environ, PYTHONPATH=wt)
    demo = os.path.join(src, 'demo.py')
    d0 = sh('cd %s && /venv/bin/python %s' % (wt, demo), env=env)
    meta['demo_without_change'] = {'exit': d0.returncode, 'tail': d0.stdout[-200:]}
    a = sh('git -C %s apply %s' % (wt, os.path.join(src, 'patch.diff')))
    meta['applies'] = a.returncode == 0
    if a.returncode != 0:
        meta['apply_error'] = a.stderr[-500:]
    else:
        d1 = sh('cd %s && /venv/bin/python %s' % (wt, demo), env=env)
        meta['demo_with_change'] = {'exit': d1.returncode, 'tail': d1.stdout[-200:]}
        for attempt in range(3):
            # (two shell tests of the suite are timing dependent under load: retry)
            t = sh('cd %s && /venv/bin/python -m pytest -q -p no:cacheprovider --timeout=900 '
                   '--continue-on-collection-errors 2>&1 | tail -1' % wt)
            meta['test_suite_with_change'] = t.stdout.strip()
            if '252 passed' in t.stdout:
                break
        t0 = time.time()
        c = sh('cd %s && SYMX_REPO=%s ./check %s --tier %s' % (VERIF, wt, pid, tier),
               env=dict(os.environ, SYMX_REPO=wt))
        meta['check_cmd'] = 'SYMX_REPO=<scratch worktree with patch> ./check %s --tier %s' % (pid, tier)
        meta['check_exit'] = c.returncode
        meta['check_wall_s'] = round(time.time() - t0, 1)
        lines = [l for l in c.stdout.splitlines() if l.startswith('VIOLATION') or l.startswith('  case=')]
        meta['check_violations'] = lines[:6]
        meta['check_summary'] = [l for l in c.stdout.splitlines() if l.startswith(pid + ' tier=')]
        other = [l for l in c.stdout.splitlines() if l.startswith(('ENGINE', 'INCONCL', 'NON-REPRO'))]
        meta['check_other'] = [l[:300] for l in other[:4]]
        meta['detected'] = c.returncode == 1 and any(l.startswith('VIOLATION') for l in lines)
    shutil.copy(os.path.join(src, 'patch.diff'), dst)
    shutil.copy(demo, dst)
    readme = os.path.join(src, 'README.txt')
    meta['needs'] = open(readme).read().strip() if os.path.exists(readme) else ''
    meta['kept'] = bool(meta.get('applies') and meta['demo_without_change']['exit'] == 0
                        and meta.get('demo_with_change', {}).get('exit', 0) != 0
                        and '252 passed' in meta.get('test_suite_with_change', ''))
finally:
    sh('git -C /repo worktree remove --force %s' % wt)
    # the check wrote evidence for the patched tree; it is rewritten by the next real run
json.dump(meta, open(os.path.join(dst, 'meta.json'), 'w'), indent=1)
print(name, 'kept=%s detected=%s exit=%s' % (meta.get('kept'), meta.get('detected'), meta.get('check_exit')),
      meta.get('check_violations', [])[:2], meta.get('check_other', [])[:1])
