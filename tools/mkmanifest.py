#!/usr/bin/env python3
"""Regenerate MANIFEST.json from tools/claims.json and properties.jsonl."""
import json, os
HERE = os.path.dirname(os.path.dirname(os.path.abspath(__file__)))
props = [json.loads(l) for l in open(os.path.join(HERE, 'properties.jsonl'))]
claims = json.load(open(os.path.join(HERE, 'tools', 'claims.json')))
checks = []
na = []
for p in props:
    pid = p['id']
    c = claims['claimed'].get(pid)
    if c:
        checks.append({
            'property_id': pid,
            'quick_cmd': './check %s --tier quick' % pid,
            'thorough_cmd': './check %s --tier thorough' % pid,
            'evidence_file': 'evidence/%s.json' % pid,
            'replay_cmd_template': './check %s --replay {path}' % pid,
            'engine': 'symx',
            'level_claimed': {'category': 'model_checking', 'text': c['text'],
                              'design_ref': 'DESIGN.md section 5, %s' % pid},
            'level_note': c['note'],
            'technique': c.get('technique', 'symbolic execution of the real Python code (symx) + z3/cvc5 SMT queries per path; counterexamples replayed on the pristine code'),
        })
    else:
        na.append({'property_id': pid, 'reason': claims['not_applicable'].get(
            pid, 'no harness built yet within this technique; see DESIGN.md section 5 for the planned encoding')})
m = {
    'version': 1,
    'setup_cmd': './setup.sh',
    'hooks': {'guard': 'PCBASIC_VERIF', 'enable': 'none needed: monitors and stubs are injected into the lifted copy of the source by symx.lift, /repo is not instrumented',
              'baseline_off_cmd': 'cd /repo && /venv/bin/python -m pytest -ra -q -p no:cacheprovider --timeout=900 --continue-on-collection-errors',
              'source_commits': [], 'add_only': True},
    'engines': [{'name': 'symx', 'path': 'symx/', 'serves_properties': sorted(claims['claimed']),
                 'kind_free_text': 'concolic/symbolic executor for the real pcbasic Python source (AST-normalised copy loaded from /repo on every run), z3 5.1 via API, cvc5 binary as second solver'}],
    'checks': checks,
    'not_applicable': na,
    'notes': claims.get('notes', ''),
}
json.dump(m, open(os.path.join(HERE, 'MANIFEST.json'), 'w'), indent=1)
print('claimed', len(checks), 'not_applicable', len(na))
