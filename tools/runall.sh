#!/bin/bash
# run every claimed check (quick or thorough tier) sequentially; print one line per property
cd "$(dirname "$0")/.."
TIER=${1:-quick}
for p in $(python3 -c "import json; print(' '.join(c['property_id'] for c in json.load(open('MANIFEST.json'))['checks']))"); do
  s=$(date +%s)
  ./check $p --tier $TIER > /tmp/runall_$p.log 2>&1
  rc=$?
  e=$(date +%s)
  echo "$p exit=$rc $((e-s))s $(grep "^$p tier" /tmp/runall_$p.log | cut -c1-160)"
  grep "^KNOWN\|^VIOL\|^ENGINE\|^INCONCL\|^NON-REPRO" /tmp/runall_$p.log | cut -c1-200 | head -5
done
