"""Contract stubs for environment modules (used identically in symbolic and concrete runs)."""
from symx import core, seqs
from symx.core import ite, s_and, s_or, s_not


class FakeStr(object):
    """Result of strftime: only .encode('ascii') is supported (that is all pcbasic does with it)."""

    def __init__(self, items):
        self.items = items

    def encode(self, *a):
        return seqs.mk_bytes(self.items)


def _two(v):
    return [v // 10 + 48, v % 10 + 48]


def _four(v):
    return [v // 1000 + 48, (v // 100) % 10 + 48, (v // 10) % 10 + 48, v % 10 + 48]


def _dim(y, m):
    leap = s_and(y % 4 == 0, s_or(y % 100 != 0, y % 400 == 0))
    return ite(m == 2, ite(leap, 29, 28), ite(s_or(m == 4, m == 6, m == 9, m == 11), 30, 31))


class TD(object):
    """timedelta as a formal sum of instants (exact for a clock that does not advance)."""

    def __init__(self, terms=None):
        self.terms = dict(terms or {})      # id(instant) -> (instant, coeff)

    def _merge(self, other, sign):
        t = dict(self.terms)
        for k, (inst, c) in other.terms.items():
            old = t.get(k, (inst, 0))[1]
            if old + sign * c == 0:
                t.pop(k, None)
            else:
                t[k] = (inst, old + sign * c)
        return TD(t)

    def __add__(self, o):
        if isinstance(o, TD):
            return self._merge(o, 1)
        return NotImplemented

    def __sub__(self, o):
        if isinstance(o, TD):
            return self._merge(o, -1)
        return NotImplemented

    def is_zero(self):
        return not self.terms


class DT(object):
    """datetime.datetime with the documented argument contract."""

    NOW = None

    def __init__(self, year, month, day, hour=0, minute=0, second=0, microsecond=0):
        for v, lo, hi, what in ((year, 1, 9999, 'year'), (month, 1, 12, 'month'),
                                (hour, 0, 23, 'hour'), (minute, 0, 59, 'minute'),
                                (second, 0, 59, 'second'), (microsecond, 0, 999999, 'microsecond')):
            if not s_and(v >= lo, v <= hi):
                raise ValueError('%s is out of range' % what)
        if not s_and(day >= 1, day <= _dim(year, month)):
            raise ValueError('day is out of range for month')
        self.year, self.month, self.day = year, month, day
        self.hour, self.minute, self.second, self.microsecond = hour, minute, second, microsecond

    @classmethod
    def now(cls):
        return cls.NOW

    def __add__(self, td):
        if not isinstance(td, TD):
            return NotImplemented
        t = TD({id(self): (self, 1)})._merge(td, 1)
        if len(t.terms) == 1:
            inst, c = list(t.terms.values())[0]
            if c == 1:
                return inst
        raise core.Unsupported('clock stub: offset does not reduce to one instant')

    __radd__ = __add__

    def __sub__(self, o):
        if isinstance(o, DT):
            if o is self:
                return TD()
            return TD({id(self): (self, 1), id(o): (o, -1)})
        return NotImplemented

    def strftime(self, fmt):
        out = []
        i = 0
        while i < len(fmt):
            c = fmt[i]
            if c == '%':
                k = fmt[i + 1]
                i += 2
                if k == 'H':
                    out += _two(self.hour)
                elif k == 'M':
                    out += _two(self.minute)
                elif k == 'S':
                    out += _two(self.second)
                elif k == 'm':
                    out += _two(self.month)
                elif k == 'd':
                    out += _two(self.day)
                elif k == 'Y':
                    out += _four(self.year)
                else:
                    raise core.Unsupported('strftime %' + k)
            else:
                out.append(ord(c))
                i += 1
        return FakeStr(out)


DT.NOW = DT(2024, 2, 29, 13, 14, 15, 678901)


class DateTimeModule(object):
    datetime = DT
    timedelta = TD
