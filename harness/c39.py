"""C39 -- RND is a deterministic full-period sequence in [0, 1).

Real code: Randomiser._cycle / rnd_ / reseed / clear, Float.from_int, Float.idiv/_div_den
(if-converted), Float.mantissa, values.to_single.
"""
from symx.runner import Case
from .common import *

ORACLE = ('s\' = (a*s + c) mod 2^24 with a, c read from the class; full period by repeated '
          'squaring of the affine map: f^(2^24) = id (concrete arithmetic) and the solver shows '
          'that f^(2^23) has no fixed point among all 2^24 states, where f is the symbolic result '
          'of the real _cycle; RND value = seed / 2^24 exactly (mantissa/exponent relation)')
BOUNDS = {'states': 'all 2^24 seeds (symbolic)', 'arguments': 'all single bit patterns for RND(x); '
          'all integer/single/double bit patterns for RANDOMIZE',
          'reading': 'RANDOMIZE keeps the low byte of the previous seed (GW-BASIC behaviour the code '
                     'documents); "reseeds identically" is checked as: the new state is the documented '
                     'function of (argument bytes, previous seed AND 255)',
          'outside': 'RUN/CLEAR calling Randomiser.clear (checked at clear() itself)'}
ASSUMPTIONS = ['z3 decides the formulas', 'symx models validated per path']
IFC = {'basic.values.numbers': ['_div_den']}
P24 = 1 << 24


def _rnd(h):
    vals = mk_values(h)
    R = h.P.basic.values.randomiser
    r = R.Randomiser(vals)
    return vals, r, R.Randomiser._multiplier, R.Randomiser._increment, R.Randomiser._step


def body_cycle(h):
    vals, r, a, c, step = _rnd(h)
    s = h.int('seed', 0, P24 - 1)
    r._seed = s
    r._cycle()
    s1 = r._seed
    h.require('lcg-step', s1 == (a * s + c) % P24)
    h.require('state-in-range', s_and(s1 >= 0, s1 < P24))
    # full period: compose the affine map with itself 24 times (concrete), starting from the
    # coefficients the *real* step was just shown to have for every state
    A, C = a % P24, c % P24
    for j in range(23):
        A, C = (A * A) % P24, (A * C + C) % P24
    # (A, C) is now f^(2^23)
    A24, C24 = (A * A) % P24, (A * C + C) % P24
    h.require('f^(2^24)-is-identity', A24 == 1 and C24 == 0)
    h.require('f^(2^23)-has-no-fixed-point', (A * s + C) % P24 != s)
    # second step from the new state (sequence depends on the state only)
    r._cycle()
    h.require('second-step', r._seed == (a * s1 + c) % P24)
    return [s1, r._seed]


def _check_value(h, label, res, seed):
    """res is the Single seed/2^24 exactly, in [0,1)"""
    if res[0] != 'ok' or type(res[1]).__name__ != 'Single':
        h.require(label + '-single', False)
        return None
    raw = raw_of(res[1])
    z, neg, e, m = raw[3] == 0, raw[2] >= 128, raw[3], None
    man = raw[0] + raw[1] * 256 + raw[2] * 65536
    man = ite(neg, man, man + 0x800000)
    # value = man * 2^(e - 152) = seed * 2^-24  <=>  man * 2^(e - 128) = seed, e <= 128
    k = h.concretize(128 - e, 300)
    if k < 0:
        h.require(label + '-below-1', False)
        return raw
    h.require(label + '-exact', ite(seed == 0, z, s_and(s_not(z), s_not(neg),
                                                        (man >> k) == seed, ((man >> k) << k) == man)))
    h.require(label + '-in-[0,1)', s_or(z, s_and(s_not(neg), e <= 128)))
    return raw


def body_rnd(h):
    vals, r, a, c, step = _rnd(h)
    s = h.int('seed', 0, P24 - 1)
    r._seed = s
    mode = h.params['mode']
    if mode == 'none':
        res = h.call(r.rnd_, iter([None]))
        want = (a * s + c) % P24
    else:
        x = h.bytes('x', 4)
        X = mk_num(h, vals, x)
        res = h.call(r.rnd_, iter([X]))
        zero, neg = x[3] == 0, x[2] >= 128
        mant = x[0] + x[1] * 256 + (x[2] | 0x80) * 65536
        want = ite(zero, s, ite(neg, (a * mant + c) % P24, (a * s + c) % P24))
    h.require('new-state', r._seed == want)
    raw = _check_value(h, 'value', res, r._seed)
    return [r._seed, raw]


def body_reseed(h):
    vals, r, a, c, step = _rnd(h)
    t = h.params['type']
    s = h.int('seed', 0, P24 - 1)
    r._seed = s
    x = h.bytes('x', TYPES[t])
    res = h.call(r.reseed, mk_num(h, vals, x))
    h.require('no-error', res[0] == 'ok')
    x = list(x)
    hi2 = x[-2:]
    mask = x[-4:-2] if len(x) >= 4 else [0, 0]
    n = s16([hi2[0] ^ mask[0], hi2[1] ^ mask[1]])
    want = ((a * (s & 0xff) + c) % P24 + n * step) % P24
    h.require('documented-recipe', r._seed == want)
    h.require('state-in-range', s_and(r._seed >= 0, r._seed < P24))
    return [r._seed]


def body_sequence(h):
    """RND(0) reports the current state after every kind of operation (RND, RND(0) twice, CLEAR,
    RANDOMIZE, RND(negative)): no stale value survives a reset or reseed."""
    vals, r, a, c, step = _rnd(h)
    init = r._seed
    N = h.P.basic.values.numbers
    s = h.int('seed', 0, P24 - 1)
    r._seed = s
    zero = N.Single(None, vals)
    v1 = h.call(r.rnd_, iter([None]))
    s1 = (a * s + c) % P24
    h.require('after-rnd-state', r._seed == s1)
    z1 = h.call(r.rnd_, iter([zero.clone()]))
    _check_value(h, 'rnd0-after-rnd', z1, s1)
    h.require('rnd0-repeats-last', v1[0] == 'ok' and z1[0] == 'ok' and
              bytes_eq(raw_of(v1[1]), raw_of(z1[1])))
    which = h.params['then']
    if which == 'clear':
        r.clear()
        want = init
    elif which == 'randomize':
        x = h.bytes('x', 2)
        r.reseed(mk_num(h, vals, x))
        want = ((a * (s1 & 0xff) + c) % P24 + s16(x) * step) % P24
    else:
        x = h.bytes('x', 4)
        h.assume(s_and(x[3] != 0, x[2] >= 128))
        h.call(r.rnd_, iter([mk_num(h, vals, x)]))
        mant = x[0] + x[1] * 256 + x[2] * 65536
        want = (a * mant + c) % P24
    h.require('state-after-' + which, r._seed == want)
    z2 = h.call(r.rnd_, iter([zero.clone()]))
    _check_value(h, 'rnd0-after-' + which, z2, want)
    h.require('state-unchanged-by-rnd0', r._seed == want)
    return [raw_of(z1[1]) if z1[0] == 'ok' else None, raw_of(z2[1]) if z2[0] == 'ok' else None]


def body_clear(h):
    vals, r, a, c, step = _rnd(h)
    init = r._seed
    s = h.int('seed', 0, P24 - 1)
    r._seed = s
    r.clear()
    h.require('clear-restores-initial-seed', r._seed == init)
    h.require('initial-seed-constant', init == 5228370)
    return [r._seed]


def cases(tier):
    cs = [Case('cycle', body_cycle), Case('clear', body_clear)]
    cs.append(Case('rnd', body_rnd, params={'mode': 'none'}, ifconvert=IFC, timeout_s=1200))
    cs.append(Case('rnd-x', body_rnd, params={'mode': 'arg'}, ifconvert=IFC, timeout_s=1200))
    for then in ('clear', 'randomize', 'rndneg') if tier == 'thorough' else ('clear',):
        cs.append(Case('sequence-' + then, body_sequence, params={'then': then}, ifconvert=IFC,
                       timeout_s=2400))
    for t in 'isd':
        cs.append(Case('randomize-' + t, body_reseed, params={'type': t}))
    return cs
