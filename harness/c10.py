"""C10 -- String variables keep their values through garbage collection (one-step check).

Real code: StringSpace.store / collect_garbage / fix_temporaries / reset_temporaries / view /
_retrieve / _delete_last, String.from_str / to_str / to_pointer.
"""
from symx.runner import Case
from .common import *

ORACLE = ('every live pointer dereferences to the bytes stored through it; after a collection the '
          'live strings are packed downward from the top of string space without gaps or overlap and '
          '"current" equals top - total live length; a string stored afterwards overlaps nothing')
BOUNDS = {'heap': 'up to 4 strings stored through the real store(), lengths 0..3 each (all 256 shapes), '
                  'symbolic contents, every liveness subset, temporaries boundary after any prefix',
          'step': 'one collect_garbage over the live pointers, then reset_temporaries, then one store of a '
                  'new symbolic string (length 0..3)',
          'outside': 'the DataSegment around it (which pointers are live, FRE arithmetic, Out of string '
                     'space), strings in code or FIELD memory, histories longer than this step'}
ASSUMPTIONS = ['z3 decides the formulas', 'symx models validated per path',
               'StringSpace runs over a stub memory (fixed layout, check_free never fails)']


def body(h):
    lens = h.params['lens']
    vals = mk_values_s(h)
    space = vals.stringspace
    top = space._memory.stack_start()
    ptrs, contents = [], []
    fix_after = h.concretize(h.int('fix_after', 0, len(lens)))
    for k, L in enumerate(lens):
        if k == fix_after:
            space.fix_temporaries()
        c = h.bytes('s%d' % k, L)
        S = mk_str(h, vals, c)
        ptrs.append(S)
        contents.append(list(c))
    if fix_after == len(lens):
        space.fix_temporaries()
    live = [bool(h.concretize(h.int('live%d' % k, 0, 1))) for k in range(len(lens))]
    for k, S in enumerate(ptrs):
        h.require('reads-back-before-%d' % k, bytes_eq(list(S.to_str()), contents[k]))
    views = [ptrs[k].view() for k in range(len(lens)) if live[k]]
    space.collect_garbage(views)
    total = 0
    ranges = []
    for k, S in enumerate(ptrs):
        if not live[k]:
            continue
        h.require('live-value-unchanged-%d' % k, bytes_eq(list(S.to_str()), contents[k]))
        ln, addr = S.to_pointer()
        h.require('length-kept-%d' % k, ln == len(contents[k]))
        if ln:
            ranges.append((addr, addr + ln))
            total += ln
    h.require('current-after-collection', space.current == top - total)
    rs = sorted(ranges)
    packed = all(rs[i][1] == rs[i + 1][0] for i in range(len(rs) - 1)) and \
        (not rs or (rs[-1][1] == top + 1 and rs[0][0] == top + 1 - total))
    h.require('packed-without-overlap', packed)
    # a new string does not disturb the live ones
    space.reset_temporaries()
    nl = h.params['newlen']
    new = h.bytes('new', nl)
    N = mk_str(h, vals, new)
    h.require('new-string-reads-back', bytes_eq(list(N.to_str()), list(new)))
    for k, S in enumerate(ptrs):
        if live[k]:
            # permanent strings (stored before the temporaries boundary) must survive; temporaries
            # above the boundary may be released by reset_temporaries -- that is their contract
            if k < fix_after:
                h.require('permanent-survives-new-store-%d' % k, bytes_eq(list(S.to_str()), contents[k]))
    return [space.current]


def cases(tier):
    cs = []
    shapes = [(1,), (0, 2), (2, 1), (3, 0, 1), (1, 1, 1), (2, 3, 1)]
    if tier == 'thorough':
        shapes += [(a, b, c, d) for a in (0, 2) for b in (1, 3) for c in (0, 1) for d in (2,)]
    for lens in shapes:
        for nl in (0, 2):
            cs.append(Case('heap-%s-new%d' % ('_'.join(map(str, lens)), nl), body,
                           params={'lens': lens, 'newlen': nl}, max_fanout=100))
    return cs
