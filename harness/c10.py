"""C10 -- String variables keep their values through garbage collection (one-step check).

Real code: StringSpace.store / collect_garbage / fix_temporaries / reset_temporaries / view /
_retrieve / _delete_last, String.from_str / to_str / to_pointer.
"""
from symx.runner import Case
from .common import *

ORACLE = ('every live pointer dereferences to the bytes stored through it; after a collection the '
          'live strings are packed downward from the top of string space without gaps or overlap and '
          '"current" equals top - total live length; a string stored afterwards overlaps nothing')
BOUNDS = {'heap': 'up to 4 strings stored through the real store(), lengths 0..3 each (all 256 shapes), '
                  'symbolic contents, every liveness subset, temporaries boundary after any prefix',
          'step': 'one collect_garbage over the live pointers, then reset_temporaries, then one store of a '
                  'new symbolic string (length 0..3)',
          'outside': 'the DataSegment around it (which pointers are live, FRE arithmetic, Out of string '
                     'space), strings in code or FIELD memory, histories longer than this step'}
ASSUMPTIONS = ['z3 decides the formulas', 'symx models validated per path',
               'StringSpace runs over a stub memory (fixed layout, check_free never fails)']


def body(h):
    lens = h.params['lens']
    vals = mk_values_s(h)
    space = vals.stringspace
    top = space._memory.stack_start()
    ptrs, contents = [], []
    fix_after = h.concretize(h.int('fix_after', 0, len(lens)))
    for k, L in enumerate(lens):
        if k == fix_after:
            space.fix_temporaries()
        c = h.bytes('s%d' % k, L)
        S = mk_str(h, vals, c)
        ptrs.append(S)
        contents.append(list(c))
    if fix_after == len(lens):
        space.fix_temporaries()
    live = [bool(h.concretize(h.int('live%d' % k, 0, 1))) for k in range(len(lens))]
    for k, S in enumerate(ptrs):
        h.require('reads-back-before-%d' % k, bytes_eq(list(S.to_str()), contents[k]))
    views = [ptrs[k].view() for k in range(len(lens)) if live[k]]
    space.collect_garbage(views)
    total = 0
    ranges = []
    for k, S in enumerate(ptrs):
        if not live[k]:
            continue
        h.require('live-value-unchanged-%d' % k, bytes_eq(list(S.to_str()), contents[k]))
        ln, addr = S.to_pointer()
        h.require('length-kept-%d' % k, ln == len(contents[k]))
        if ln:
            ranges.append((addr, addr + ln))
            total += ln
    h.require('current-after-collection', space.current == top - total)
    rs = sorted(ranges)
    packed = all(rs[i][1] == rs[i + 1][0] for i in range(len(rs) - 1)) and \
        (not rs or (rs[-1][1] == top + 1 and rs[0][0] == top + 1 - total))
    h.require('packed-without-overlap', packed)
    # a new string does not disturb the live ones
    space.reset_temporaries()
    nl = h.params['newlen']
    new = h.bytes('new', nl)
    N = mk_str(h, vals, new)
    h.require('new-string-reads-back', bytes_eq(list(N.to_str()), list(new)))
    for k, S in enumerate(ptrs):
        if live[k]:
            # permanent strings (stored before the temporaries boundary) must survive; temporaries
            # above the boundary may be released by reset_temporaries -- that is their contract
            if k < fix_after:
                h.require('permanent-survives-new-store-%d' % k, bytes_eq(list(S.to_str()), contents[k]))
    return [space.current]


# ---- session level: the whole interpreter, program template with string statements ------------------

SESSION_PROG = [
    b'10 A$="abcdefgh"',
    b'20 B$=LEFT$(S$,L%)',
    b'30 Z$=MID$(B$,P%)',
    b'35 IF G0% THEN F=FRE("")',
    b'40 C$=T$+"": W$=S$',
    # concatenation with an empty left operand must give a copy, not an alias of the right operand
    b'45 Q$=N$+B$: U$=N$+A$: IF LEN(Q$)>0 THEN MID$(Q$,1)="#"',
    b'46 O$=S$+"": MID$(O$,2)=N$+O$',
    b'50 IF G1% THEN F=FRE("")',
    b'60 D$=B$+C$+(Z$+LEFT$(T$,1+0*FRE("")))',
    # under memory pressure: collect, then pad string space so that exactly R% bytes stay free
    b'65 IF M%>0 THEN F=FRE(""): PAD$=STRING$(F-R%,"p")',
    b'66 S$=""',
    # (TM%: the new value is a temporary, not a variable)
    b'70 IF TM% THEN MID$(A$,K%)=B$+N$ ELSE MID$(A$,K%)=B$',
    b'75 PAD$=""',
    b'80 IF G3% THEN F=FRE("")',
    b'90 E$=A$+Z$: T$=T$+"!"',
    b'100 IF G1% THEN F=FRE("")',
    b'110 V$=D$+E$: OK%=1',
]
FILL = [b'DIM F$(30)', b'I%=0', b'WHILE FRE(0)>M%: F$(I%)=STRING$(100,"f"): I%=I%+1: WEND']


def body_session(h):
    """string statements under (optional) memory pressure with collections at chosen points"""
    from . import session
    # (a small data segment, so that the filler loop is short)
    impl = session.mk_impl(h, max_memory=8000) if h.params['tight'] else session.mk_impl(h)
    for line in SESSION_PROG:
        impl.execute(line)
    impl.execute(b'L%=0:P%=0:K%=0:G0%=0:G1%=0:G3%=0:OK%=0:M%=0:R%=0:F=0:I%=0:TM%=0')
    # every variable exists before memory is filled, so that only string space is needed afterwards
    impl.execute(b'Z$="":A$="":B$="":C$="":D$="":E$="":V$="":W$="":S$="":T$="":PAD$="":N$="":Q$="":U$="":O$=""')
    L = h.choice('L', [0, 2, 6])
    P = h.choice('P', [1, 2, 3, 7])
    K = h.choice('K', [1, 4, 8])
    G0 = h.choice('G0', [0, 1])
    G1 = h.choice('G1', [0, 1])
    # (with a temporary as new value in line 70 three free bytes are legitimately too few: 12 then force
    # the collection while the temporary is alive)
    temp_rhs = bool(h.params['tight']) and h.params['tight'] % 20 == 0
    R = h.choice('R', [12, 20] if temp_rhs else [3, 20]) if h.params['tight'] else 0
    G3 = h.choice('G3', [0, 1])
    s = h.bytes('s', 6)
    t = h.bytes('t', 3)
    impl.set_variable(b'S$', s)
    impl.set_variable(b'T$', t)
    impl.execute(b'L%%=%d:P%%=%d:K%%=%d:G0%%=%d:G1%%=%d:G3%%=%d:R%%=%d' % (L, P, K, G0, G1, G3, R))
    if h.params['tight']:
        # (every second memory-pressure case assigns a temporary in line 70)
        impl.execute(b'M%%=%d: TM%%=%d' % (h.params['tight'], 1 if h.params['tight'] % 20 == 0 else 0))
        for line in FILL:
            impl.execute(line)
    res = h.call(impl.execute, b'GOTO 10')
    h.require('no-host-exception', res[0] == 'ok', res)
    if res[0] != 'ok':
        return [res[0]]
    h.require('program-completed', s_and(impl.interpreter.error_num == 0, s16(session.peek_raw(impl, b'OK%')) == 1),
              impl.interpreter.error_num)
    # reference with Python lists
    S, T = list(s), list(t)
    A = list(b'abcdefgh')
    B = S[:L]
    Z = B[P - 1:]
    C = list(T)
    D = B + C + Z + T[:1]
    n = min(len(B), len(A) - K + 1)
    A2 = A[:K - 1] + B[:n] + A[K - 1 + n:]
    E = A2 + Z
    want = {b'A$': A2, b'B$': B, b'Z$': Z, b'C$': C, b'D$': D, b'E$': E, b'W$': S, b'S$': [], b'PAD$': [], b'N$': [], b'Q$': ([35] + B[1:]) if B else [],
            b'U$': A, b'O$': S[:1] + S[:5],
            b'T$': T + [33], b'V$': D + E}
    obs = []
    for name in sorted(want):
        got = impl.get_variable(name)
        h.require('value-of-%s' % name.decode(), s_and(len(got) == len(want[name]), bytes_eq(got, want[name])), got)
        obs.append(list(got))
    if h.params['tight']:
        fill = impl.get_variable(b'F$()')
        count = s16(session.peek_raw(impl, b'I%'))
        h.require('filler-strings-intact', all(bytes(f) == (b'f' * 100 if i < count else b'') for i, f in enumerate(fill)))
    return obs


def body_first_string(h):
    """a collection during the very first string assignment (no permanent string exists yet)"""
    from . import session
    impl = session.mk_impl(h)
    impl.execute(b'N%=0:M%=0:L%=0')
    n, m = h.choice('n', [0, 1, 3]), h.choice('m', [0, 2])
    impl.execute(b'N%%=%d:M%%=%d' % (n, m))
    t = h.bytes('t', 2)
    res = h.call(impl.execute, b'A$=STRING$(N%,"a")+STRING$(M%,"b")+MID$("q",1+0*FRE("")): L%=LEN(A$)')
    h.require('no-host-exception', res[0] == 'ok', res)
    if res[0] != 'ok':
        return [res[0]]
    h.require('no-error', impl.interpreter.error_num == 0, impl.interpreter.error_num)
    got = impl.get_variable(b'A$')
    want = [97] * n + [98] * m + [113]
    h.require('value-of-A$', s_and(len(got) == len(want), bytes_eq(got, want)), got)
    # a second string with symbolic content must not disturb the first
    impl.set_variable(b'T$', t)
    impl.execute(b'B$=T$+A$: F=FRE("")')
    got2 = impl.get_variable(b'B$')
    h.require('value-of-B$', s_and(len(got2) == 2 + len(want), bytes_eq(got2, list(t) + want)), got2)
    h.require('A$-kept', bytes_eq(impl.get_variable(b'A$'), want))
    return [list(got), list(got2)]


def body_swap(h):
    """SWAP of a string with an element of an array that does not exist yet, when creating the array has
    to collect garbage first (and the collection moves the string)"""
    from . import session
    impl = session.mk_impl(h, max_memory=8000)
    impl.execute(b'M%=250:R%=0:I%=0:F=0:L%=0')
    impl.execute(b'A$="":G$="":S$="":PAD$="":K$=""')
    sv = h.bytes('s', 4)
    r = h.choice('R', [3, 20, 41])
    order = h.choice('order', ['scalar-first', 'array-first'])
    for line in FILL:
        impl.execute(line)
    impl.execute(b'G$=STRING$(60,"g")')
    impl.set_variable(b'S$', sv)
    impl.execute(b'A$=S$+"": K$=S$+"k": R%%=%d' % r)
    impl.execute(b'F=FRE(""): PAD$=STRING$(F-R%,"p"): G$=""')
    stmt = b'SWAP A$,H$(1)' if order == 'scalar-first' else b'SWAP H$(1),A$'
    res = h.call(impl.execute, stmt + b': L%=LEN(H$(1))')
    h.require('no-host-exception', res[0] == 'ok', res)
    h.require('no-error', impl.interpreter.error_num == 0, impl.interpreter.error_num)
    vals = {}
    for name in (b'A$', b'K$', b'S$'):
        got = h.call(impl.get_variable, name)
        h.require('readable-' + name.decode(), got[0] == 'ok', got)
        vals[name] = got[1] if got[0] == 'ok' else None
    arr = h.call(impl.get_variable, b'H$()')
    h.require('array-readable', arr[0] == 'ok', arr)
    if arr[0] == 'ok' and all(v is not None for v in vals.values()):
        S = list(sv)
        h.require('swapped', s_and(len(vals[b'A$']) == 0, len(arr[1][1]) == 4, bytes_eq(arr[1][1], S)), arr[1][1])
        h.require('others-kept', s_and(bytes_eq(vals[b'K$'], S + [107]), bytes_eq(vals[b'S$'], S)))
    return [res[0]]


def cases(tier):
    cs = []
    shapes = [(1,), (0, 2), (2, 1), (3, 0, 1), (1, 1, 1), (2, 3, 1)]
    if tier == 'thorough':
        shapes += [(a, b, c, d) for a in (0, 2) for b in (1, 3) for c in (0, 1) for d in (2,)]
    for lens in shapes:
        for nl in (0, 2):
            cs.append(Case('heap-%s-new%d' % ('_'.join(map(str, lens)), nl), body,
                           params={'lens': lens, 'newlen': nl}, max_fanout=100))
    cs.append(Case('session-swap-into-new-array', body_swap, max_fanout=100, timeout_s=900))
    cs.append(Case('session-first-string', body_first_string, max_fanout=100, timeout_s=900))
    for tight in ([0, 250, 180] if tier != 'thorough' else [0, 250, 230, 200, 180]):
        cs.append(Case('session-strings-free%d' % tight, body_session, params={'tight': tight},
                       max_fanout=100, timeout_s=3000, max_paths=5000))
    return cs
