"""C01 -- No BASIC input produces an internal interpreter error (catalogue of statements with
symbolic integer arguments, run through the whole real interpreter).

Real code: Implementation.execute -> Interpreter.loop -> statement parser -> the statement's
implementation, for each statement of the catalogue below.
"""
from symx.runner import Case
from .common import *
from . import session
from .c19 import _setup, _geti

ORACLE = 'Implementation.execute returns normally: every failure has become a BASIC error (ERR), no host exception escapes'
BOUNDS = {'statements': 'the catalogue CATALOGUE below: direct-mode statements and functions whose arguments are the '
                        'integer variables A%, B%, C%', 'values': 'every 16-bit value of A%, B%, C% (symbolic); for the f-* entries every 32-bit pattern of the single S!',
          'session': 'Implementation() with its documented default arguments except output_streams=None, '
                     'input_streams=None',
          'outside': 'all other statements, programs, typed input, loaded files, floating-point and string '
                     'arguments, the command line: "all programs" cannot be encoded'}
ASSUMPTIONS = ['z3 decides the formulas', 'symx models validated per path']

CATALOGUE = {
    'locate-row': b'LOCATE A%',
    'locate-col': b'LOCATE ,B%',
    'locate-cursor': b'LOCATE ,,A%,B%,C%',
    'color': b'COLOR A%,B%,C%',
    'width': b'WIDTH A%',
    'width2': b'WIDTH A%,B%',
    'screen': b'SCREEN A%,B%',
    'screen4': b'SCREEN 0,A%,B%,C%',
    'view-print': b'VIEW PRINT A% TO B%',
    'key-number': b'KEY A%, "x"',
    'key-text': b'KEY 1, CHR$(B% AND 255)',
    'key-on': b'KEY(A%) ON',
    'poke-low': b'DEF SEG=0: POKE 1024+(B% AND 127),C%',
    'poke-video-offset': b'DEF SEG=&HB800: POKE B% AND 255,65',
    'poke-video-value': b'DEF SEG=&HB800: POKE 2,C%',
    'peek-low': b'DEF SEG=0: R%=PEEK(B% AND 127)',
    'peek-bios': b'DEF SEG=0: R%=PEEK(1024+(C% AND 127))',
    'peek-video': b'DEF SEG=&HB800: R%=PEEK(B% AND 255)',
    'peek-rom': b'DEF SEG=&HF000: R%=PEEK(&HFF00+(B% AND 255))',
    'peek-rom-notice': b'DEF SEG=&HF000: R%=PEEK(&HE000+(B% AND 127))',
    'peek-rom-font': b'DEF SEG=&HF000: R%=PEEK(&HFA60+(B% AND 31))',
    'peek-rom-font-end': b'DEF SEG=&HF000: R%=PEEK(&HFE60+(C% AND 31))',
    'peek-ram-font': b'DEF SEG=&HC000: R%=PEEK(B% AND 31)',
    'peek-ram-font-end': b'DEF SEG=&HC000: R%=PEEK(&H3F0+(C% AND 31))',
    'out': b'OUT A%,1',
    'screen-fn-row': b'R%=SCREEN(A%,1,C%)',
    'screen-fn-col': b'R%=SCREEN(1,B%)',
    'def-seg': b'DEF SEG=A%',
    'inp': b'R%=INP(A%) AND 255',
    'fre': b'R%=FRE(A%)',
    'sound': b'SOUND A%,0',
    'chr': b'R$=CHR$(A%)',
    'string-count': b'R$=STRING$(A%,65)',
    'string-char': b'R$=STRING$(2,B%)',
    'space': b'R$=SPACE$(A%)',
    'left': b'R$=LEFT$("abcdef",A%)',
    'midset': b'R$="abcdef": MID$(R$,A%,B%)="xyz"',
    'instr': b'R%=INSTR(A%,"abcabc","c")',
    'hex': b'R$=HEX$(A%)+OCT$(B%)',
    'on-goto': b'ON A% GOTO 10,20',
    'error': b'ERROR A%',
    'dim': b'ERASE Q%: DIM Q%(A% AND 7, B% AND 3)',
    'array': b'Q%(A%,B%)=C%',
    'option-base': b'OPTION BASE A%',
    'randomize': b'RANDOMIZE A%',
    'pen-stick': b'R%=PEN(A%)+STICK(B% AND 3)+STRIG(C% AND 7)',
    'lpos-pos': b'R%=POS(A%)+LPOS(B% AND 3)+CSRLIN',
    'point': b'R%=POINT(A%)',
    'pcopy': b'PCOPY A%,B%',
    'erdev': b'R%=ERDEV+VARPTR(A%)',
    'eof': b'R%=EOF(A%)',
    'loc': b'R%=LOC(A%)+LOF(B%)',
    'get': b'GET #A%,B%',
    'lock': b'LOCK #A%, B% TO C%',
    'ioctl': b'R$=IOCTL$(A%)',
    'delete': b'DELETE A%',
    'clear': b'CLEAR ,A%',
    'clear3': b'CLEAR ,,B%',
    'defusr': b'DEF USR0=A%: R%=USR0(B%)',
    'call': b'CALL A%(B%)',
    'motor': b'MOTOR A%',
    'com-on': b'COM(A%) ON: STRIG(B%) ON',
    'on-key': b'ON KEY(A%) GOSUB 0',
    'palette': b'PALETTE A%,B%',
    'noise': b'NOISE A%,B%,C%',
    # statements that fail half-way through (no cassette is attached)
    'chain-fails': b'CHAIN "CAS1:X",A%',
    'chain-merge-fails': b'CHAIN MERGE "CAS1:X",A%,ALL',
    'load-fails': b'LOAD "CAS1:X"',
    # memory between the FIELD buffers, string operand of a logical operator, pointer strings in PLAY/DRAW
    'peek-field-gap': b'R%=PEEK(3900+(A% AND 511))',
    'poke-field-gap': b'POKE 3900+(A% AND 511),B% AND 255',
    'imp-string': b'R%=A% IMP "A"',
    'logic-string': b'R%=(A% AND "A")+("B" OR B%)+("C" XOR C%)+(A% EQV "D")+("E" IMP B%)',
    'play-pointer': b'PLAY "O="+CHR$(A% AND 255)+CHR$(0)+CHR$(0)',
    'draw-pointer': b'SCREEN 1: DRAW "R="+CHR$(A% AND 15)+CHR$(B% AND 1)+CHR$(0)',
    # an error in the middle of a string expression (a temporary is on the evaluation stack)
    'temp-then-error': b'R$=("te"+"mp")+CHR$(A%)',
    'temp-then-error-2': b'R$=LEFT$("ab"+"cd",A% AND 7)+CHR$(B%)',
    # string functions given a temporary, over their early-return and error paths
    'temp-left-right': b'R$=LEFT$("ab"+"cd",A% AND 7)+RIGHT$("xy"+"z",B% AND 7)',
    'temp-left-any': b'R$=LEFT$("ab"+"cd",A%)',
    'temp-mid': b'R$=MID$("ab"+"cd",A% AND 15,B% AND 7)',
    'temp-instr': b'R%=INSTR(A% AND 7,"ab"+"cd","c")+INSTR("ab"+"cd","x")',
    'temp-string': b'R$=STRING$(A% AND 3,B%)+STRING$(2,"q"+"r")',
    # a collection inside the first string expression of a session (no permanent string exists yet)
    'fre-in-first-string': b'R$=STRING$(A% AND 3,"a")+MID$("q",1+0*FRE(""))',
    'fre-in-first-string-2': b'R$=STRING$(A% AND 3,"a")+STRING$(B% AND 3,"b"): R%=FRE(R$)',
    # single-precision argument S! (all 2^32 bit patterns)
    'f-string-char': b'R$=STRING$(2,S!)',
    'f-chr': b'R$=CHR$(S!)',
    'f-locate': b'LOCATE S!',
    'f-space': b'R$=SPACE$(S!)',
    'f-mid': b'R$=MID$("abcdef",S!)',
    'f-on-goto': b'ON S! GOTO 10,20',
    'f-array': b'Q%(S!,0)=1',
    'f-color': b'COLOR S!',
    'f-hex': b'R$=HEX$(S!)',
    'f-int-assign': b'R%=S!',
}

SLOW = ()


def body(h):
    stmt = CATALOGUE[h.params['name']]
    impl = session.mk_impl(h)
    impl.execute(b'10 REM x')
    impl.execute(b'20 REM y')
    impl.execute(b'A%=0:B%=0:C%=0:R%=0:R!=0:S!=0:R$="":DIM Q%(1,1)')
    raws = {}
    if h.params['name'].startswith('f-'):
        session.poke_int(h, impl, b'S!', h.bytes('s', 4))
    else:
        for n in (b'A%', b'B%', b'C%'):
            raws[n] = h.bytes(n[:1].decode().lower(), 2)
            session.poke_int(h, impl, n, raws[n])
    res = h.call(impl.execute, stmt)
    h.require('only-basic-errors-escape', res[0] == 'ok', res)
    # whatever the statement did (or failed at), the interpreter must be left in a state in which the
    # next direct line -- here one that forces a string-space collection -- runs normally
    # (not after CLEAR ,n: the size of the data segment is then symbolic and every later allocation forks on it)
    if h.params['name'] not in ('clear', 'clear3'):
        post = h.call(impl.execute, b'R%=FRE("")')
        h.require('next-line-with-a-collection-runs', post[0] == 'ok', post)
        # ... and the collector must not have been left switched off by a statement that failed half-way
        h.require('collector-still-enabled', impl.memory._allow_collect is True)
    err = impl.interpreter.error_num
    return [res[0], res[1] if res[0] != 'ok' else None]


def cases(tier):
    names = [n for n in CATALOGUE if n not in SLOW]
    return [Case(n, body, params={'name': n}, timeout_s=900, max_paths=40000, max_fanout=70000) for n in names]
