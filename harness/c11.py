"""C11 -- Variable storage is faithfully exposed and never aliased (scalars and array elements).

Real code: Scalars.set / get / varptr / get_memory / view_buffer, scalars.get_name_in_memory,
Arrays.allocate / varptr / get_memory / view_buffer / set.
"""
from symx.runner import Case
from .common import *
from .c12 import StubSeg, body_history, body_index

ORACLE = ('reference layout: variables in creation order, each a record of 1 + max(3, len(name)) '
          'header bytes followed by its value bytes; PEEK at any address of the area returns the header '
          'byte or the value byte the layout puts there; value ranges pairwise disjoint')
BOUNDS = {'scalars': 'up to 3 variables chosen from a menu of names of length 2..41 and all four types, '
                     'symbolic values (all bit patterns), symbolic PEEK address over the whole area',
          'arrays': 'one or two arrays of 1..2 dimensions with bounds <= 2, symbolic element contents, '
                    'symbolic subscripts and PEEK address',
          'erase': 'three arrays (1-3 dimensions, names up to 41 characters) with symbolic sizes and contents, ERASE of '
                   'one of them: the others keep contents, records stay contiguous, PEEK at VARPTR follows; index '
                   'arithmetic of 3-dimensional arrays injective (shared with C12)',
          'outside': 'string space contents behind string pointers (C10), VARPTR$, SWAP, garbage collection, '
                     'the DataSegment dispatch between scalar, array and string areas'}
ASSUMPTIONS = ['z3 decides the formulas', 'symx models validated per path',
               'DataSegment replaced by a stub (fixed var_start, check_free never fails)']

NAMES = [b'A%', b'B!', b'C#', b'D$', b'AB%', b'XYZ!', b'LONGNAME#', b'N234567890123456789012345678901234567890$']
SIZE = {b'%': 2, b'!': 4, b'#': 8, b'$': 3}


class Seg(StubSeg):
    base = 4000
    scalars = None

    def var_current(self):
        return self.base + (self.scalars.current if self.scalars else 0)


def body_scalars(h):
    vals = mk_values_s(h)
    S = h.P.basic.memory.scalars._module()
    seg = Seg()
    sc = S.Scalars(seg, vals)
    seg.scalars = sc
    picks = h.params['names']
    layout = []      # (name, name_addr, var_addr, value bytes)
    pos = Seg.base
    for k, name in enumerate(picks):
        size = SIZE[name[-1:]]
        raw = h.bytes('v%d' % k, size)
        if name[-1:] == b'$':
            # a string pointer is just 3 bytes here
            val = h.P.basic.values.strings.String(None, vals).from_bytes(raw)
        else:
            val = mk_num(h, vals, raw)
        sc.set(name, val)
        hdr = 1 + max(3, len(name))
        layout.append((name, pos, pos + hdr, list(raw)))
        pos += hdr + size
    end = pos
    # VARPTR and disjointness
    for name, na, va, raw in layout:
        h.require('varptr-%s' % name.decode(), sc.varptr(name) == va)
        h.require('value-readable-%s' % name.decode(), bytes_eq(list(sc.view_buffer(name)), raw))
    # PEEK at a symbolic address
    a = h.int('addr', Seg.base, end - 1)
    got = sc.get_memory(a)
    want = -1
    for name, na, va, raw in layout:
        norm = bytearray(name.upper())[:-1]
        hdr = [SIZE[name[-1:]], norm[0], norm[1] if len(name) > 2 else 0,
               (len(name) - 3) if len(name) > 3 else 0] + [c - 65 + 0xC1 for c in norm[2:]]
        hdr = hdr[:va - na]
        for i, b in enumerate(hdr):
            want = ite(a == na + i, b, want)
        for i, b in enumerate(raw):
            want = ite(a == va + i, b, want)
    h.require('peek-matches-layout', got == want)
    # assigning to one variable changes no other
    tgt = h.concretize(h.int('target', 0, len(picks) - 1))
    tname = picks[tgt]
    new = h.bytes('new', SIZE[tname[-1:]])
    if tname[-1:] == b'$':
        nv = h.P.basic.values.strings.String(None, vals).from_bytes(new)
    else:
        nv = mk_num(h, vals, new)
    sc.set(tname, nv)
    for k, (name, na, va, raw) in enumerate(layout):
        cur = list(sc.view_buffer(name))
        h.require('after-assign-%s' % name.decode(), bytes_eq(cur, list(new) if k == tgt else raw))
        h.require('varptr-stable-%s' % name.decode(), sc.varptr(name) == va)
    return [got]


def body_arrays(h):
    vals = mk_values_s(h)
    A = h.P.basic.memory.arrays._module()
    seg = Seg()
    arr = A.Arrays(seg, vals)
    spec = h.params['arrays']        # [(name, dims)]
    lay = []
    pos = 0
    for k, (name, dims) in enumerate(spec):
        arr.allocate(name, list(dims))
        size = SIZE[name[-1:]]
        n = 1
        for d in dims:
            n *= d + 1
        content = h.bytes('c%d' % k, n * size)
        arr._buffers[name][:] = content
        rec = 1 + max(3, len(name)) + 3 + 2 * len(dims)
        lay.append((name, dims, pos, pos + rec, list(content), size))
        pos += rec + n * size
    base = seg.var_current()
    # VARPTR of a symbolic element and PEEK of its bytes
    which = h.concretize(h.int('which', 0, len(spec) - 1))
    name, dims, na, aa, content, size = lay[which]
    idx = [h.int('i%d' % q, 0, dims[q]) for q in range(len(dims))]
    vp = arr.varptr(name, idx)
    flat, area = 0, 1
    for x, d in zip(idx, dims):
        flat = flat + area * x
        area = area * (d + 1)
    h.require('varptr-element', vp == base + aa + size * flat)
    off = h.int('off', 0, size - 1)
    got = arr.get_memory(vp + off)
    want = 0
    for p, b in enumerate(content):
        want = ite(flat * size + off == p, b, want)
    h.require('peek-at-varptr-gives-element-bytes', got == want)
    # the value a VARPTR$ pointer designates (DRAW "R=" + VARPTR$(A%(i)), PLAY "X" + VARPTR$(A$(i)))
    dv = h.call(arr.dereference, vp)
    if dv[0] != 'ok' or dv[1] is None:
        h.require('pointer-dereferences', False, dv)
    else:
        raw = raw_of(dv[1])
        wantel = [0] * size
        for p, b in enumerate(content):
            e, o2 = divmod(p, size)
            wantel[o2] = ite(flat == e, b, wantel[o2])
        h.require('pointer-dereferences-to-the-element', s_and(len(raw) == size, bytes_eq(raw, wantel)), raw)
    # distinct elements / arrays: disjoint ranges
    if len(spec) > 1:
        o = lay[1 - which]
        h.require('arrays-disjoint', s_or(vp + size <= base + o[3], vp >= base + o[3] + len(o[4])))
    # assigning to the element changes nothing else
    new = h.bytes('new', size)
    arr.view_buffer(name, idx)[:] = new
    for k, (nm, dm, na2, aa2, cont, sz) in enumerate(lay):
        cur = list(arr._buffers[nm])
        exp = []
        for p, b in enumerate(cont):
            e, o2 = divmod(p, sz)
            exp.append(ite(s_and(k == which, flat == e), new[o2], b) if k == which else b)
        h.require('only-element-changed-%d' % k, bytes_eq(cur, exp))
    return [vp]


def cases(tier):
    cs = []
    menus = [[b'A%'], [b'D$', b'B!'], [b'A%', b'C#', b'XYZ!'], [b'LONGNAME#', b'AB%', b'D$'],
             [b'N234567890123456789012345678901234567890$', b'B!']]
    if tier == 'thorough':
        menus += [[b'C#', b'C!', b'C%'], [b'XYZ!', b'LONGNAME#', b'A%']]
    for m in menus:
        cs.append(Case('scalars-' + '-'.join(n.decode()[:6] for n in m), body_scalars,
                       params={'names': m}, max_fanout=200))
    specs = [[(b'A%', (2,))], [(b'B!', (1, 2))], [(b'A%', (1,)), (b'LONGARR#', (1, 1))],
             [(b'S$', (2,)), (b'B!', (1,))]]
    for s in specs:
        cs.append(Case('arrays-' + '-'.join('%s%s' % (n.decode(), 'x'.join(map(str, d))) for n, d in s),
                       body_arrays, params={'arrays': s}, max_fanout=200))
    # element addresses after ERASE (records shift down; PEEK at VARPTR must follow) and distinct
    # elements of 3-dimensional arrays: the harness bodies are shared with C12
    cs.append(Case('erase-layout', body_history, params={'which': 'erase-layout'}))
    cs.append(Case('erase-layout-2d-3d', body_history,
                   params={'which': 'erase-layout', 'names': [b'A!', b'M%', b'C#'], 'ndims': [1, 2, 3]}))
    cs.append(Case('erase-layout-long-names', body_history,
                   params={'which': 'erase-layout', 'ndims': [2, 1, 1],
                           'names': [b'A234567890123456789012345678901234567890%',
                                     b'B23456789012345678901234567890123456789!', b'C#']}))
    cs.append(Case('elements-distinct-3d', body_index, backend='INT', params={'n': 3}, timeout_s=3000,
                   query_timeout_ms=900000))
    return cs
