"""C37 -- The keyboard buffer is a 15-key FIFO mirrored in the BIOS ring.

Real code: KeyboardBuffer.append / getc / peek / length / empty / start / stop / ring_read /
ring_set_boundaries (the operation behind POKE 1050, PEEK(1052)).
"""
from symx.runner import Case
from .common import *

ORACLE = ('reference FIFO of at most 15 keystrokes: a key is appended while fewer than 15 wait and '
          'dropped otherwise, INKEY$ takes the oldest, the clearing POKE empties it; the ring slots from '
          'the head pointer up to the tail pointer hold the waiting keystrokes in order')
BOUNDS = {'history': 'every sequence of k = 5 (quick) / 7 (thorough) operations from {key press with '
                     'symbolic character, INKEY$ read, clearing POKE 1050,PEEK(1052)}',
          'start states': 'the buffer after n0 press+read pairs, n0 in 0, 1, 15, 16, 17, 31 (ring pointers '
                          'in every relation to the wrap-around), optionally pre-filled with 13 keys',
          'outside': 'POKE of arbitrary pointer values and slot contents, two-byte (extended) keystrokes, '
                     'the Keyboard layer above the buffer (codepage conversion, event checks)'}
ASSUMPTIONS = ['z3 decides the formulas', 'symx models validated per path']


class Q(object):
    class audio(object):
        events = []

        @staticmethod
        def put(e):
            Q.audio.events.append(e)


def body(h):
    K = h.P.basic.inputs.keyboard._module()
    buf = K.KeyboardBuffer(Q, 16, True)
    n0 = h.params['n0']
    for i in range(n0):
        buf.append(bytes([65 + i % 26]), 0)
        buf.getc()
    ref = []
    for i in range(h.params['prefill']):
        buf.append(bytes([97 + i]), 0)
        ref.append([97 + i])
    obs = []
    h.fact('cleared', False)
    for k in range(h.params['k']):
        op = h.concretize(h.int('op%d' % k, 0, h.params.get('ops', 2)))
        if op == 0:
            c = h.int('key%d' % k, 1, 255)
            cb = seq1(h, c)
            buf.append(cb, 0)
            if len(ref) < 15:
                ref.append([c])
        elif op == 1:
            got = buf.getc()
            want = ref.pop(0) if ref else []
            h.require('inkey-%d-oldest-first' % k, bytes_eq(list(got), want))
            obs.append(list(got))
        elif op == 3:
            # POKE 1050,PEEK(1050): POKE 1052,PEEK(1052) -- writing the pointers back changes nothing
            buf.ring_set_boundaries(buf.start, buf.stop)
        else:
            buf.ring_set_boundaries(buf.stop, buf.stop)
            ref = []
            h.fact('cleared', True)
        h.require('length-%d' % k, buf.length == len(ref))
        h.require('empty-%d' % k, bool(buf.empty) == (len(ref) == 0))
        pk = buf.peek()
        h.require('peek-%d' % k, bytes_eq(list(pk), ref[0] if ref else []))
        st, sp = buf.start, buf.stop
        h.require('pointers-%d' % k, 0 <= st < 16 and 0 <= sp < 16 and (sp - st) % 16 == len(ref))
        ring_ok = True
        for j, want in enumerate(ref):
            slot = buf.ring_read((st + j) % 16)
            ring_ok = s_and(ring_ok, bytes_eq(list(slot[0]), want))
        h.require('ring-holds-waiting-keys-%d' % k, ring_ok)
    # drain: everything still waiting comes out in order, then nothing
    for want in list(ref):
        got = buf.getc()
        h.require('drain-order', bytes_eq(list(got), want))
    h.require('drained-empty', bytes_eq(list(buf.getc()), []))
    return obs


def seq1(h, c):
    from symx import seqs
    return seqs.mk_bytes([c]) if h.symbolic else bytes([c])


def body_session_peek(h):
    """the ring as seen through PEEK in the whole interpreter (segment 0, 41Ah..43Dh)"""
    from . import session
    from .c19 import _geti
    impl = session.mk_impl(h)
    impl.execute(b'A%=0:R%=0:S%=0:E%=0')
    buf = impl.keyboard.buf
    n0, n = h.params['n0'], h.params['n']
    slots = [[0, 0] for _ in range(16)]
    for i in range(n0):
        c = 65 + i % 26
        buf.append(bytes([c]), 1 + i)
        slots[i % 16] = [c, 1 + i]
        buf.getc()
    for j in range(n):
        c, sc = h.int('key%d' % j, 1, 255), h.int('scan%d' % j, 0, 255)
        buf.append(seq1(h, c), sc)
        slots[(n0 + j) % 16] = [c, sc]
    a = h.int('a', 0, 31)
    session.poke_int(h, impl, b'A%', seqs_bytes(h, [a, 0]))
    impl.execute(b'DEF SEG=0: R%=PEEK(1054+A%): S%=PEEK(1050)+256*PEEK(1051): E%=PEEK(1052)+256*PEEK(1053)')
    h.require('no-error', impl.interpreter.error_num == 0, impl.interpreter.error_num)
    R, S, E = _geti(impl, b'R%'), _geti(impl, b'S%'), _geti(impl, b'E%')
    want = 0
    for i in range(16):
        want = ite(a == 2 * i, slots[i][0], ite(a == 2 * i + 1, slots[i][1], want))
    h.require('peek-shows-the-ring-slot', R == want, [R])
    h.require('head-and-tail-pointers', s_and(S == 30 + 2 * (n0 % 16), E == 30 + 2 * ((n0 + n) % 16)), [S, E])
    return [R, S, E]


def seqs_bytes(h, items):
    from symx import seqs
    return seqs.mk_bytes(items) if h.symbolic else bytes(items)


def cases(tier):
    k = 7 if tier == 'thorough' else 5
    cs = []
    for n0 in (0, 1, 15, 16, 17, 31):
        for pre in (0, 13):
            cs.append(Case('hist-n%d-p%d' % (n0, pre), body, params={'n0': n0, 'prefill': pre, 'k': k},
                           max_paths=400000, timeout_s=3000))
    for n0, pre in ((13, 6), (3, 2), (15, 14)):
        # pointer write-back in wrapped and unwrapped layouts (op 3 added to the alphabet)
        cs.append(Case('hist-pokeback-n%d-p%d' % (n0, pre), body,
                       params={'n0': n0, 'prefill': pre, 'k': 3, 'ops': 3}, max_paths=400000, timeout_s=3000))
    for n0, n in ((0, 0), (0, 15), (5, 3), (14, 15), (16, 1), (31, 2)):
        cs.append(Case('session-peek-n%d-k%d' % (n0, n), body_session_peek, params={'n0': n0, 'n': n},
                       max_fanout=100, timeout_s=900))
    return cs
