"""C38 -- Event traps fire only when enabled and never re-enter (program templates, PEN trap).

Real code: the whole interpreter; BasicEvents.command / pen_ / on_event_gosub_, PenHandler,
EventQueues.check_events / _check_input, Interpreter.handle_basic_events / return_ / trap_error /
resume_.  Occurrences are injected as real PEN_DOWN input signals.
"""
from symx.runner import Case
from .common import *
from . import session
from .c19 import _setup, _geti

ORACLE = ('reference monitor with three flags per trap (enabled, stopped, pending) plus "error handler '
          'active": an occurrence sets pending iff the trap is enabled (ON or STOPped); at a statement '
          'boundary of a running program the handler is entered iff pending, enabled, not stopped and no '
          'error handler is active; entering stops the trap until RETURN; PEN ON inside the handler '
          're-arms it; an occurrence while OFF is lost')
BOUNDS = {'programs': 'one template: three PEN ON/OFF/STOP commands (every combination), a trapped error '
                      'with RESUME NEXT, a handler of three statements',
          'second template': 'an error inside the trap routine whose handler leaves the routine with RETURN <line> before RESUME, two symbolic occurrence bits',
          'schedule': 'six possible occurrence points (after the statements T%=Xi%: in the main line, inside '
                      'the trap handler, inside the error handler, after the error), each taken or not by a '
                      'symbolic bit: all 64 schedules x 27 command combinations',
          'third and fourth template': 'PEN ON + every 3-command sequence with 4 occurrence bits; all four STRIG traps defined, STRIG(N%) ON for every 16-bit N%, every (joystick, button) signal',
          'outside': 'KEY/TIMER/PLAY/COM traps, STRIG beyond the ON/definition correspondence (same EventHandler base class; TIMER and PLAY depend on '
                     'clock and sound queue), several traps pending at once (handled in set-iteration order), '
                     'real timing'}
ASSUMPTIONS = ['z3 decides the formulas', 'symx models validated per path',
               'the harness wraps EventQueues.check_events to put a PEN_DOWN signal into the real input '
               'queue when the program has set T% (the statement T%=Xi% marks an occurrence point)']

CMD = {0: b'PEN ON', 1: b'PEN OFF', 2: b'PEN STOP'}


def _program(c):
    return [b'10 ON PEN GOSUB 100: ON ERROR GOTO 300',
            b'20 ' + CMD[c[0]] + b': T%=X1%: M%=M%+1: ' + CMD[c[1]] + b': T%=X2%: M%=M%+1: ' + CMD[c[2]] +
            b': T%=X3%: M%=M%+1',
            b'30 ERROR 9: M%=M%+1',
            b'40 T%=X6%: M%=M%+1: M%=M%+1: END',
            b'100 P%=P%+1: T%=X4%: X4%=0: Q%=Q%+1: RETURN',
            b'300 E%=E%+1: T%=X5%: F%=F%+1: RESUME NEXT']


def _reference(c, X):
    """number of handler entries P and completions Q for commands c and occurrence bits X[1..6]"""
    st = {'en': False, 'stop': False, 'pend': False, 'err': False, 'P': 0, 'Q': 0}

    def command(k):
        if k == 0:
            st['en'], st['stop'] = True, False
        elif k == 1:
            st['en'] = False
        else:
            st['stop'] = True

    def occur(bit):
        if bit and st['en']:
            st['pend'] = True

    def boundary(depth=0):
        # handler entry (possibly repeatedly: the handler may be re-entered after it returns)
        while st['pend'] and st['en'] and not st['stop'] and not st['err']:
            st['pend'] = False
            st['stop'] = True
            st['P'] += 1
            # handler: P%=P%+1 | T%=X4% | X4%=0 | Q%=Q%+1 | RETURN  (occurrence point after T%=X4%;
            # the bit is cleared, so only the first entry produces an occurrence)
            occur(X[4] if st['P'] == 1 else 0)
            st['Q'] += 1
            st['stop'] = False                     # RETURN re-arms
    # line 20
    command(c[0]); boundary()
    occur(X[1]); boundary()
    boundary()
    command(c[1]); boundary()
    occur(X[2]); boundary()
    boundary()
    command(c[2]); boundary()
    occur(X[3]); boundary()
    boundary()
    # line 30: ERROR 9 -> handler 300 (events suspended) ... RESUME NEXT
    st['err'] = True
    occur(X[5])
    st['err'] = False
    boundary()
    boundary()
    # line 40
    occur(X[6]); boundary()
    boundary()
    boundary()
    return st['P'], st['Q']


def body(h):
    c = (h.params['c0'], h.concretize(h.int('c1', 0, 2)), h.concretize(h.int('c2', 0, 2)))
    names = [b'T%', b'M%', b'P%', b'Q%', b'E%', b'F%'] + [b'X%d%%' % i for i in range(1, 7)]
    impl = _setup(h, _program(c), names)
    S = h.P.basic.base.signals._module()
    X = [None]
    for i in range(1, 7):
        raw = h.bytes('x%d' % i, 2)
        h.assume(s_and(raw[1] == 0, raw[0] <= 1))
        session.poke_int(h, impl, b'X%d%%' % i, raw)
        X.append(raw[0] != 0)
    orig = impl.queues.check_events
    tvar = impl.scalars._vars[b'T%']

    def check_events():
        if tvar[0] != 0:               # forks on the symbolic occurrence bit
            tvar[0] = 0
            impl.queues.inputs.put(S.Event(S.PEN_DOWN, (1, 1)))
        return orig()
    impl.queues.check_events = check_events
    impl.execute(b'GOTO 10')
    P, Q, M, E, F = [_geti(impl, n) for n in (b'P%', b'Q%', b'M%', b'E%', b'F%')]
    # every X bit that was reached has been decided by now: run the reference on concrete bits
    bits = [None] + [bool(x) for x in X[1:]]
    wantP, wantQ = _reference(c, bits)
    h.require('handler-entries', P == wantP)
    h.require('handler-completions', Q == wantQ)
    h.require('main-program-unaffected', s_and(M == 6, E == 1, F == 1))
    h.require('no-error-left', impl.interpreter.error_num == 9 or impl.interpreter.error_num == 0)
    # the program has ended: an occurrence while a direct-mode line runs must not start the handler
    impl.queues.inputs.put(S.Event(S.PEN_DOWN, (1, 1)))
    impl.execute(b'M%=M%+0: M%=M%+0')
    h.require('no-trap-without-running-program', _geti(impl, b'P%') == wantP)
    return [P, Q, M]


ERR_RETURN_PROG = [
    b'10 ON PEN GOSUB 100: ON ERROR GOTO 300: PEN ON',
    b'20 T%=X1%: M%=M%+1: M%=M%+1: GOTO 400',
    b'100 P%=P%+1: O%=O%*4+1: IF P%=1 THEN ERROR 9',
    b'110 Q%=Q%+1: RETURN',
    # the error handler leaves the trap routine with RETURN <line> and only then RESUMEs
    b'300 E%=E%+1: RETURN 310',
    b'310 T%=X2%: O%=O%*4+2: O%=O%*4+2: RESUME 400',
    b'400 O%=O%*4+3: M%=M%+1: M%=M%+1: END',
]


def body_error_return(h):
    """an occurrence while an error handler is active is deferred until RESUME, also when the handler
    has already left the trap routine it was entered from with RETURN"""
    names = [b'T%', b'M%', b'P%', b'Q%', b'E%', b'O%', b'X1%', b'X2%']
    impl = _setup(h, ERR_RETURN_PROG, names)
    S = h.P.basic.base.signals._module()
    X = [None]
    for i in (1, 2):
        raw = h.bytes('x%d' % i, 2)
        h.assume(s_and(raw[1] == 0, raw[0] <= 1))
        session.poke_int(h, impl, b'X%d%%' % i, raw)
        X.append(raw[0] != 0)
    orig = impl.queues.check_events
    tvar = impl.scalars._vars[b'T%']

    def check_events():
        if tvar[0] != 0:
            tvar[0] = 0
            impl.queues.inputs.put(S.Event(S.PEN_DOWN, (1, 1)))
        return orig()
    impl.queues.check_events = check_events
    impl.execute(b'GOTO 10')
    P, Q, M, E, O = [_geti(impl, n) for n in (b'P%', b'Q%', b'M%', b'E%', b'O%')]
    x1, x2 = bool(X[1]), bool(X[2])
    if not x1:
        want = (0, 0, 0, [3])
    elif not x2:
        want = (1, 0, 1, [1, 2, 2, 3])
    else:
        # the second occurrence waits for RESUME; its routine then runs before line 400 goes on
        want = (2, 1, 1, [1, 2, 2, 1, 3])
    order = 0
    for d in want[3]:
        order = order * 4 + d
    h.require('handler-entries-and-completions', s_and(P == want[0], Q == want[1], E == want[2]), [P, Q, E])
    h.require('order-of-events', O == order, [O, order])
    # (RESUME 400 skips the rest of line 20 when the first trap was taken)
    h.require('main-program-statements', M == (2 if x1 else 4), M)
    return [P, Q, E, O]


def cases(tier):
    return [Case('pen-trap-c%d' % c0, body, params={'c0': c0}, timeout_s=3000, max_paths=400000)
            for c0 in (0, 1, 2)] + [Case('error-handler-returns-from-trap', body_error_return, timeout_s=900)] + cases_more()


# ---- four commands: a trap that is switched ON again after STOP / OFF (pending occurrences) -------------

def _program4(c):
    cmds = b''.join(CMD[k] + b': T%=X' + str(i + 1).encode() + b'%: M%=M%+1: ' for i, k in enumerate(c))
    return [b'10 ON PEN GOSUB 100',
            b'20 ' + cmds + b'M%=M%+1',
            b'40 M%=M%+1: END',
            b'100 P%=P%+1: RETURN']


def _reference4(c, X):
    st = {'en': False, 'stop': False, 'pend': False, 'P': 0}

    def boundary():
        if st['pend'] and st['en'] and not st['stop']:
            st['pend'] = False
            st['P'] += 1
    for i, k in enumerate(c):
        if k == 0:
            st['en'], st['stop'] = True, False
        elif k == 1:
            st['en'] = False
        else:
            st['stop'] = True
        boundary()
        if X[i + 1] and st['en']:
            st['pend'] = True
        boundary()
        boundary()
    boundary()
    return st['P']


def body4(h):
    c = (0, h.params['c1'], h.concretize(h.int('c2', 0, 2)), h.concretize(h.int('c3', 0, 2)))
    names = [b'T%', b'M%', b'P%'] + [b'X%d%%' % i for i in range(1, 5)]
    impl = _setup(h, _program4(c), names)
    S = h.P.basic.base.signals._module()
    X = [None]
    for i in range(1, 5):
        raw = h.bytes('x%d' % i, 2)
        h.assume(s_and(raw[1] == 0, raw[0] <= 1))
        session.poke_int(h, impl, b'X%d%%' % i, raw)
        X.append(raw[0] != 0)
    orig = impl.queues.check_events
    tvar = impl.scalars._vars[b'T%']

    def check_events():
        if tvar[0] != 0:
            tvar[0] = 0
            impl.queues.inputs.put(S.Event(S.PEN_DOWN, (1, 1)))
        return orig()
    impl.queues.check_events = check_events
    impl.execute(b'GOTO 10')
    P, M = _geti(impl, b'P%'), _geti(impl, b'M%')
    bits = [None] + [bool(x) for x in X[1:]]
    h.require('handler-entries', P == _reference4(c, bits))
    h.require('main-program-unaffected', s_and(M == 6, impl.interpreter.error_num == 0))
    return [P, M]


# ---- STRIG: the trap that STRIG(n) ON enables is the one ON STRIG(n) GOSUB defined ------------------------

def body_strig(h):
    prog = [b'10 ON STRIG(0) GOSUB 100: ON STRIG(2) GOSUB 110: ON STRIG(4) GOSUB 120: ON STRIG(6) GOSUB 130',
            b'20 STRIG(N%) ON',
            b'30 T%=1: M%=M%+1: M%=M%+1: END',
            b'100 R%=R%+1: RETURN', b'110 R%=R%+10: RETURN', b'120 R%=R%+100: RETURN',
            b'130 R%=R%+1000: RETURN']
    impl = _setup(h, prog, [b'T%', b'M%', b'R%', b'N%'])
    S = h.P.basic.base.signals._module()
    n = h.bytes('n', 2)
    N = s16(n)
    joy, button = h.concretize(h.int('joy', 0, 1)), h.concretize(h.int('button', 0, 1))
    session.poke_int(h, impl, b'N%', n)
    orig = impl.queues.check_events
    tvar = impl.scalars._vars[b'T%']

    def check_events():
        if tvar[0] != 0:
            tvar[0] = 0
            impl.queues.inputs.put(S.Event(S.STICK_DOWN, (joy, button)))
        return orig()
    impl.queues.check_events = check_events
    impl.execute(b'GOTO 10')
    R, M = _geti(impl, b'R%'), _geti(impl, b'M%')
    err = impl.interpreter.error_num
    own = ite(N == 0, 1, ite(N == 2, 10, ite(N == 4, 100, ite(N == 6, 1000, 0))))
    h.require('only-the-enabled-trap-fires', s_or(R == 0, R == own))
    h.require('operand-range', s_iff(s_or(N < 0, N > 255), err == IFC))
    h.require('main-program-unaffected', s_implies(err == 0, M == 2))
    return [R, M, err]


def cases_more():
    cs = [Case('pen-trap-4cmd-on-c%d' % c1, body4, params={'c1': c1}, timeout_s=3000, max_paths=400000)
          for c1 in (0, 1, 2)]
    cs.append(Case('strig-on-matches-on-strig-gosub', body_strig, timeout_s=900, max_fanout=300))
    return cs
