"""C21 -- Error trapping reports and resumes at the right place (program templates).

Real code: the whole interpreter running templates with ON ERROR GOTO; Interpreter.trap_error /
resume_ / error_ / err_ / erl_ / on_error_goto_, the statement pointer bookkeeping.
"""
from symx.runner import Case
from .common import *
from . import session
from .c19 import _setup, _geti

ORACLE = ('reference model of the statement pointer for each template: which marker statements run, ERR = '
          'code of the failing statement, ERL = its line, RESUME re-executes it, RESUME NEXT continues '
          'after it, RESUME n continues at line n')
BOUNDS = {'programs': 'fixed templates: a fault (integer division with symbolic operands: Division by zero / '
                      'Overflow / none) or ERROR n (every 16-bit n) in the middle of a multi-statement line, '
                      'inside a GOSUB, handlers using RESUME / RESUME NEXT / RESUME n by symbolic choice, an '
                      'error inside the handler, RESUME without error, ERROR n without handler',
          'outside': 'arbitrary programs; the printed error message text (the console has no stream attached; '
                     'the error number and ERL are read back instead)'}
ASSUMPTIONS = ['z3 decides the formulas', 'symx models validated per path']

PROG_FAULT = [b'10 ON ERROR GOTO 100',
              b'20 M%=M%+1: X%=A%\\B%: M%=M%+10',
              b'30 M%=M%+100: END',
              b'40 M%=M%+1000: END',
              b'100 C%=ERR: L%=ERL: H%=H%+1: IF R%=0 THEN RESUME NEXT',
              b'110 IF R%=1 THEN RESUME 40',
              b'120 B%=1: RESUME']


def body_fault(h):
    impl = _setup(h, PROG_FAULT, [b'M%', b'X%', b'A%', b'B%', b'C%', b'L%', b'H%', b'R%'])
    a, b = h.bytes('a', 2), h.bytes('b', 2)
    r = h.int('r', 0, 2)
    A, B = s16(a), s16(b)
    session.poke_int(h, impl, b'A%', a)
    session.poke_int(h, impl, b'B%', b)
    session.poke_int(h, impl, b'R%', seq2(h, r))
    impl.execute(b'GOTO 10')
    M, X, C, L, H = [_geti(impl, n) for n in (b'M%', b'X%', b'C%', b'L%', b'H%')]
    div0 = B == 0
    ovf = s_and(A == -32768, B == -1)
    fault = s_or(div0, ovf)
    code = ite(div0, DIV0, ite(ovf, OVERFLOW, 0))
    h.require('err-is-error-code', C == code)
    h.require('erl-is-failing-line', L == ite(fault, 20, 0))
    h.require('handler-entered-once-per-error', H == ite(fault, 1, 0))
    # statement pointer: markers
    wantM = ite(s_and(fault, r == 1), 1001, 111)
    h.require('resume-continues-at-the-right-place', M == wantM)
    # RESUME re-executes the statement (with B%=1 now): X% = A% \ 1 = A%
    absA, absB = ite(A < 0, -A, A), ite(B < 0, -B, B)
    h.require('resume-reexecutes-statement', s_implies(s_and(fault, r == 2), X == A))
    h.require('no-untrapped-error', impl.interpreter.error_num == 0)
    return [M, X, C, L, H]


def seq2(h, v):
    from symx import seqs
    items = s16_bytes(v)
    return seqs.mk_bytes(items) if h.symbolic else bytes(items)


def body_error_n(h):
    """ERROR n for every n, trapped; and the same inside a GOSUB"""
    sub = h.params['sub']
    if sub:
        prog = [b'10 ON ERROR GOTO 100', b'20 M%=1: GOSUB 50: M%=M%+100: END',
                b'50 M%=M%+10: ERROR E%: M%=M%+20: RETURN',
                b'100 C%=ERR: L%=ERL: RESUME NEXT']
        line, wantM = 50, 131
    else:
        prog = [b'10 ON ERROR GOTO 100', b'20 M%=1: ERROR E%: M%=M%+10: END',
                b'100 C%=ERR: L%=ERL: RESUME NEXT']
        line, wantM = 20, 11
    impl = _setup(h, prog, [b'M%', b'E%', b'C%', b'L%'])
    e = h.bytes('e', 2)
    E = s16(e)
    session.poke_int(h, impl, b'E%', e)
    impl.execute(b'GOTO 10')
    M, C, L = [_geti(impl, n) for n in (b'M%', b'C%', b'L%')]
    valid = s_and(E >= 1, E <= 255)
    h.require('err-is-n-or-illegal-function-call', C == ite(valid, E, IFC))
    h.require('erl-is-line-of-error-statement', L == line)
    h.require('resume-next-continues-after-it', M == wantM)
    h.require('no-untrapped-error', impl.interpreter.error_num == 0)
    return [M, C, L]


def body_in_handler(h):
    """an error inside the handler stops the program with that error"""
    prog = [b'10 ON ERROR GOTO 100', b'20 M%=1: ERROR 9: M%=M%+10: END',
            b'100 H%=H%+1: ERROR E%: H%=H%+10: RESUME NEXT']
    impl = _setup(h, prog, [b'M%', b'E%', b'H%'])
    e = h.bytes('e', 2)
    E = s16(e)
    h.assume(s_and(E >= 1, E <= 255))
    session.poke_int(h, impl, b'E%', e)
    impl.execute(b'GOTO 10')
    M, H = _geti(impl, b'M%'), _geti(impl, b'H%')
    h.require('program-stops-in-handler', s_and(M == 1, H == 1))
    # (an untrapped Syntax error additionally opens the line editor, which resets ERR)
    h.require('stops-with-that-error', s_or(impl.interpreter.error_num == E, E == 2))
    return [M, H, impl.interpreter.error_num]


def body_no_handler(h):
    prog = [b'20 M%=1: ERROR E%: M%=M%+10']
    impl = _setup(h, prog, [b'M%', b'E%', b'C%', b'L%'])
    e = h.bytes('e', 2)
    E = s16(e)
    session.poke_int(h, impl, b'E%', e)
    impl.execute(b'GOTO 20')
    err = impl.interpreter.error_num
    impl.execute(b'C%=ERR: L%=ERL')
    M, C, L = [_geti(impl, n) for n in (b'M%', b'C%', b'L%')]
    valid = s_and(E >= 1, E <= 255)
    h.require('program-stops', M == 1)
    h.require('error-number', s_or(s_and(err == ite(valid, E, IFC), C == err), E == 2))
    h.require('names-that-line', L == 20)
    return [M, C, L]


def body_resume_without_error(h):
    prog = [b'10 M%=1: RESUME', b'20 M%=M%+10']
    if h.params['form'] == 'next':
        prog[0] = b'10 M%=1: RESUME NEXT'
    elif h.params['form'] == 'line':
        prog[0] = b'10 M%=1: RESUME 20'
    impl = _setup(h, prog, [b'M%', b'Z%'])
    z = h.bytes('z', 2)
    session.poke_int(h, impl, b'Z%', z)
    impl.execute(b'GOTO 10')
    h.require('resume-without-error', impl.interpreter.error_num == 20)
    h.require('program-stops', _geti(impl, b'M%') == 1)
    return [impl.interpreter.error_num]


def body_high_line(h):
    """ERL for a failing statement on a line number above 32767"""
    prog = [b'10 ON ERROR GOTO 60000', b'40000 M%=1: ERROR E%: M%=M%+10: END',
            b'60000 C%=ERR: L!=ERL: IF L!=40000 THEN K%=1', b'60010 RESUME NEXT']
    impl = _setup(h, prog, [b'M%', b'E%', b'C%', b'K%'])
    e = h.bytes('e', 2)
    E = s16(e)
    h.assume(s_and(E >= 1, E <= 255))
    session.poke_int(h, impl, b'E%', e)
    impl.execute(b'GOTO 10')
    h.require('erl-reports-line-40000', _geti(impl, b'K%') == 1)
    h.require('err', _geti(impl, b'C%') == E)
    h.require('resumed', _geti(impl, b'M%') == 11)
    return [_geti(impl, b'K%')]


def body_direct_mode_error(h):
    """an error in a direct-mode line while the program's handler is still armed"""
    prog = [b'10 ON ERROR GOTO 100', b'20 M%=1: END', b'100 C%=ERR: H%=H%+1: RESUME NEXT']
    impl = _setup(h, prog, [b'M%', b'E%', b'C%', b'H%', b'D%'])
    e = h.bytes('e', 2)
    E = s16(e)
    h.assume(s_and(E >= 1, E <= 255, E != 2))
    session.poke_int(h, impl, b'E%', e)
    impl.execute(b'GOTO 10')
    impl.execute(b'D%=1: ERROR E%: D%=D%+10')
    C, H, D, M = [_geti(impl, n) for n in (b'C%', b'H%', b'D%', b'M%')]
    h.require('handler-runs-once', s_and(H == 1, C == E))
    h.require('resume-next-continues-the-direct-line', D == 11)
    h.require('program-not-rerun', M == 1)
    return [C, H, D, M]


def body_resume_undefined(h):
    """RESUME to a line that does not exist is an error inside the handler: the program stops with
    Undefined line number instead of entering the handler again"""
    prog = [b'10 ON ERROR GOTO 100', b'20 M%=1: ERROR E%: M%=M%+10: END',
            # (the guard keeps a looping interpreter from hanging the check)
            b'100 H%=H%+1: IF H%>3 THEN END', b'110 RESUME 999']
    impl = _setup(h, prog, [b'M%', b'E%', b'H%'])
    e = h.bytes('e', 2)
    E = s16(e)
    h.assume(s_and(E >= 1, E <= 255))
    session.poke_int(h, impl, b'E%', e)
    impl.execute(b'GOTO 10')
    M, H = _geti(impl, b'M%'), _geti(impl, b'H%')
    h.require('handler-entered-once', s_and(M == 1, H == 1), [M, H])
    h.require('stops-with-undefined-line-number', impl.interpreter.error_num == 8, impl.interpreter.error_num)
    return [M, H, impl.interpreter.error_num]


def cases(tier):
    cs = [Case('fault-resume', body_fault, timeout_s=1500),
          Case('fault-resume-0', body_fault_resume0, timeout_s=1500),
          Case('structural-errors', body_structural, max_fanout=300),
          Case('error-n', body_error_n, params={'sub': False}, max_fanout=300),
          Case('error-n-in-gosub', body_error_n, params={'sub': True}, max_fanout=300),
          Case('error-in-handler', body_in_handler, max_fanout=300),
          Case('no-handler', body_no_handler, max_fanout=300),
          Case('resume-to-undefined-line', body_resume_undefined, max_fanout=300),
          Case('erl-high-line-number', body_high_line, max_fanout=300),
          Case('direct-mode-error-with-handler', body_direct_mode_error, max_fanout=300)]
    for f in ('plain', 'next', 'line'):
        cs.append(Case('resume-without-error-' + f, body_resume_without_error, params={'form': f}))
    return cs


def body_fault_resume0(h):
    """RESUME 0 is the same statement as RESUME: the failing statement is executed again"""
    prog = PROG_FAULT[:-1] + [b'120 B%=1: RESUME 0']
    impl = _setup(h, prog, [b'M%', b'X%', b'A%', b'B%', b'C%', b'L%', b'H%', b'R%'])
    a, b = h.bytes('a', 2), h.bytes('b', 2)
    A, B = s16(a), s16(b)
    session.poke_int(h, impl, b'A%', a)
    session.poke_int(h, impl, b'B%', b)
    session.poke_int(h, impl, b'R%', seq2(h, 2))
    impl.execute(b'GOTO 10')
    M, X, C, L, H = [_geti(impl, n) for n in (b'M%', b'X%', b'C%', b'L%', b'H%')]
    fault = s_or(B == 0, s_and(A == -32768, B == -1))
    h.require('handler-entered-once-per-error', H == ite(fault, 1, 0))
    h.require('erl-is-failing-line', L == ite(fault, 20, 0))
    h.require('resume-0-reexecutes-statement', s_implies(fault, X == A))
    h.require('resume-continues-at-the-right-place', M == 111)
    h.require('no-untrapped-error', impl.interpreter.error_num == 0)
    return [M, X, C, L, H]


def body_structural(h):
    """errors raised by the interpreter's own block matching (not by ERROR n or arithmetic): ERR / ERL /
    RESUME NEXT position"""
    prog = [b'10 ON ERROR GOTO 100', b'15 M%=1',
            b'20 IF A%=1 THEN NEXT', b'22 IF A%=2 THEN WEND', b'24 IF A%=3 THEN RETURN',
            b'26 IF A%=4 THEN FOR I%=1 TO 2', b'28 IF A%=5 THEN WHILE 1',
            b'30 M%=M%+10: END',
            b'100 C%=ERR: L%=ERL: H%=H%+1: RESUME NEXT']
    impl = _setup(h, prog, [b'M%', b'A%', b'C%', b'L%', b'H%', b'I%'])
    a = h.bytes('a', 2)
    A = s16(a)
    session.poke_int(h, impl, b'A%', a)
    impl.execute(b'GOTO 10')
    M, C, L, H = [_geti(impl, n) for n in (b'M%', b'C%', b'L%', b'H%')]
    hit = s_and(A >= 1, A <= 5)
    code = ite(A == 1, 1, ite(A == 2, 30, ite(A == 3, 3, ite(A == 4, 26, ite(A == 5, 29, 0)))))
    line = ite(A == 1, 20, ite(A == 2, 22, ite(A == 3, 24, ite(A == 4, 26, ite(A == 5, 28, 0)))))
    h.require('err-is-the-specific-code', C == ite(hit, code, 0))
    h.require('erl-is-failing-line', L == ite(hit, line, 0))
    h.require('handler-entered-once-per-error', H == ite(hit, 1, 0))
    h.require('resume-next-continues', M == 11)
    h.require('no-untrapped-error', impl.interpreter.error_num == 0)
    return [M, C, L, H]
