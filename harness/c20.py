"""C20 -- User-defined functions never disturb the caller's variables (program templates).

Real code: the whole interpreter; UserFunctionManager.define, UserFunction.evaluate, expression parser.
"""
from symx.runner import Case
from .common import *
from . import session
from .c19 import _setup, _geti

ORACLE = ('after the statement that calls the function every scalar holds the value it had before, '
          'whether the call returned or raised; the result is the body evaluated with the parameters '
          'bound to the converted arguments; self recursion raises Out of memory')
BOUNDS = {'programs': 'fixed templates with integer-typed functions: two parameters named like existing '
                      'globals plus a real global; a parameter shadowing a global; nested call of a second '
                      'function; integer division inside the body; string argument to a numeric parameter; '
                      'self and mutual recursion', 'values': 'every 16-bit value of all variables and arguments',
          'outside': 'single/double parameters (conversion rounding is C03), arbitrary bodies'}
ASSUMPTIONS = ['z3 decides the formulas', 'symx models validated per path']

VARS = [b'X%', b'Y%', b'G%', b'A%', b'B%', b'R%', b'E%']


def _run(h, prog, call_line=b'GOTO 20'):
    impl = _setup(h, prog, VARS)
    raws = {}
    for n in (b'X%', b'Y%', b'G%', b'A%', b'B%'):
        raws[n] = h.bytes(n[:1].decode().lower(), 2)
        session.poke_int(h, impl, n, raws[n])
    impl.execute(b'GOTO 10')
    return impl, raws


def _unchanged(h, impl, raws):
    for n, raw in raws.items():
        h.require('unchanged-' + n.decode(), bytes_eq(session.peek_raw(impl, n), list(raw)))


def _bits16(v):
    u = ite(v < 0, v + 65536, v)
    return u


def _signed(u):
    return ite(u >= 32768, u - 65536, u)


def body_sum(h):
    # (bitwise operators keep the evaluation in integers: an arithmetic + would promote to single
    # and multiply the paths of the float code by thousands without adding to this property)
    prog = [b'10 DEF FNA%(X%,Y%)=(X% AND Y%) OR G%', b'20 R%=FNA%(A%,B%): E%=1']
    impl, raws = _run(h, prog)
    A, B, G = [_bits16(s16(raws[n])) for n in (b'A%', b'B%', b'G%')]
    _unchanged(h, impl, raws)
    h.require('result-uses-arguments-and-global', _bits16(_geti(impl, b'R%')) == ((A & B) | G))
    h.require('completed', s_and(_geti(impl, b'E%') == 1, impl.interpreter.error_num == 0))
    return [_geti(impl, b'R%')]


def body_shadow(h):
    prog = [b'10 DEF FNB%(G%)=G% XOR X%', b'20 R%=FNB%(A%): E%=1']
    impl, raws = _run(h, prog)
    A, X = _bits16(s16(raws[b'A%'])), _bits16(s16(raws[b'X%']))
    _unchanged(h, impl, raws)
    h.require('parameter-shadows-global', _bits16(_geti(impl, b'R%')) == (A ^ X))
    h.require('completed', s_and(_geti(impl, b'E%') == 1, impl.interpreter.error_num == 0))
    return [_geti(impl, b'R%')]


def body_nested(h):
    prog = [b'10 DEF FNC%(X%)=NOT X%: DEF FND%(X%,Y%)=FNC%(Y%) XOR FNC%(X%) XOR G%',
            b'20 R%=FND%(A%,B%): E%=1']
    impl, raws = _run(h, prog)
    A, B, G = [_bits16(s16(raws[n])) for n in (b'A%', b'B%', b'G%')]
    _unchanged(h, impl, raws)
    na, nb = 65535 - A, 65535 - B
    h.require('nested-call-result', _bits16(_geti(impl, b'R%')) == ((nb ^ na) ^ G))
    h.require('completed', s_and(_geti(impl, b'E%') == 1, impl.interpreter.error_num == 0))
    return [_geti(impl, b'R%')]


def body_div(h):
    """an error raised while the parameters are bound: everything is restored"""
    prog = [b'10 ON ERROR GOTO 100: DEF FNE%(X%,Y%)=X%\\Y%', b'20 R%=FNE%(A%,B%): E%=1: END',
            b'100 E%=ERR+100: RESUME 110', b'110 END']
    impl, raws = _run(h, prog)
    A, B = s16(raws[b'A%']), s16(raws[b'B%'])
    _unchanged(h, impl, raws)
    E = _geti(impl, b'E%')
    fault = s_or(B == 0, s_and(A == -32768, B == -1))
    h.require('error-trapped-with-variables-restored', E == ite(B == 0, 111, ite(fault, 106, 1)))
    return [E]


def body_mismatch(h):
    prog = [b'10 DEF FNA%(X%,Y%)=X%+Y%', b'20 R%=FNA%("S",B%): E%=1']
    impl, raws = _run(h, prog)
    _unchanged(h, impl, raws)
    h.require('type-mismatch', impl.interpreter.error_num == TYPE_MISMATCH)
    return [impl.interpreter.error_num]


def body_recursion(h):
    if h.params['mutual']:
        prog = [b'10 DEF FNP%(X%)=FNQ%(X%)+1: DEF FNQ%(X%)=FNP%(X%)+1', b'20 R%=FNP%(A%): E%=1']
    else:
        prog = [b'10 DEF FNR%(X%)=FNR%(X%)+1', b'20 R%=FNR%(A%): E%=1']
    impl, raws = _run(h, prog)
    _unchanged(h, impl, raws)
    h.require('out-of-memory', impl.interpreter.error_num == OUT_OF_MEMORY)
    h.require('statement-not-completed', _geti(impl, b'E%') == 0)
    return [impl.interpreter.error_num]


def body_duplicate_param(h):
    """two parameters with the same name: the variable must still come back with its old value"""
    prog = [b'10 DEF FNA%(X%,X%)=X% OR G%', b'20 R%=FNA%(A%,B%): E%=1']
    impl, raws = _run(h, prog)
    _unchanged(h, impl, raws)
    h.require('completed', s_and(_geti(impl, b'E%') == 1, impl.interpreter.error_num == 0))
    return [_geti(impl, b'R%')]


def body_result_conversion(h):
    """the body succeeds but the conversion of its value to the function type overflows"""
    prog = [b'10 ON ERROR GOTO 100: DEF FNO%(X%)=X%+32767', b'20 R%=FNO%(A%): E%=1: END',
            b'100 E%=ERR+100: RESUME 110', b'110 END']
    impl, raws = _run(h, prog)
    A = s16(raws[b'A%'])
    _unchanged(h, impl, raws)
    E = _geti(impl, b'E%')
    h.require('overflow-trapped-with-variables-restored', E == ite(A > 0, 106, 1))
    h.require('value', s_implies(A <= 0, _geti(impl, b'R%') == A + 32767))
    return [E]


def body_deftype_change(h):
    """DEFINT between DEF FN and the call changes which variable an untyped parameter names"""
    # (P% does not exist before the call: a parameter must not be left behind as a new variable's value)
    prog = [b'10 DEF FNT(X)=X+0: DEF FNU(P)=P OR 0: DEFINT X, P', b'20 R!=FNT(21): R%=FNU(A%): G%=P%: E%=1']
    impl, raws = _run(h, prog)
    h.require('parameter-not-left-behind', _geti(impl, b'G%') == 0, _geti(impl, b'G%'))
    h.require('result-is-the-argument', _geti(impl, b'R%') == s16(raws[b'A%']))
    raws = dict((k, v) for k, v in raws.items() if k != b'G%')
    _unchanged(h, impl, raws)
    h.require('completed', s_and(_geti(impl, b'E%') == 1, impl.interpreter.error_num == 0))
    return [_geti(impl, b'E%')]


def body_string_param(h):
    """a string parameter shadows a global string while a collection runs inside the function body"""
    impl = _setup(h, [b'10 DEF FNS$(X$)=X$+MID$("q",1+0*FRE(""))',
                      b'20 X$=S$+"": R$=FNS$(T$+""): E%=1'], [b'E%'])
    impl.execute(b'X$="":R$="":S$="":T$=""')
    sv, tv = h.bytes('s', 3), h.bytes('t', 2)
    impl.set_variable(b'S$', sv)
    impl.set_variable(b'T$', tv)
    res = h.call(impl.execute, b'GOTO 10')
    h.require('no-host-exception', res[0] == 'ok', res)
    h.require('completed', s_and(_geti(impl, b'E%') == 1, impl.interpreter.error_num == 0))
    rx, rr = h.call(impl.get_variable, b'X$'), h.call(impl.get_variable, b'R$')
    h.require('variables-readable', rx[0] == 'ok' and rr[0] == 'ok', [rx[0], rr[0]])
    if rx[0] != 'ok' or rr[0] != 'ok':
        return [rx[0], rr[0]]
    x, r = rx[1], rr[1]
    h.require('global-string-restored', s_and(len(x) == 3, bytes_eq(x, list(sv))), x)
    h.require('result-uses-the-argument', s_and(len(r) == 3, bytes_eq(r, list(tv) + [113])), r)
    h.require('other-strings-kept', s_and(bytes_eq(impl.get_variable(b'S$'), list(sv)),
                                           bytes_eq(impl.get_variable(b'T$'), list(tv))))
    return [list(x), list(r)]


def body_failed_call(h):
    """a call that fails before the function body runs (argument of the wrong type, refused recursion)
    must leave nothing behind: the next line forces a collection"""
    which = h.params['which']
    if which == 'type':
        prog = [b'10 DEF FNA$(X$,Y)=X$', b'20 ON ERROR GOTO 100', b'30 R$=FNA$(S$+"c","d"): E%=1', b'40 END',
                b'100 E%=ERR: RESUME 40']
    else:
        prog = [b'10 DEF FNA$(X$)=FNA$(X$+"a")', b'20 ON ERROR GOTO 100', b'30 R$=FNA$(S$+"r"): E%=1', b'40 END',
                b'100 E%=ERR: RESUME 40']
    impl = _setup(h, prog, [b'E%'])
    impl.execute(b'R$="":S$=""')
    sv = h.bytes('s', 2)
    impl.set_variable(b'S$', sv)
    res = h.call(impl.execute, b'GOTO 10')
    h.require('no-host-exception', res[0] == 'ok', res)
    h.require('basic-error-trapped', _geti(impl, b'E%') == (13 if which == 'type' else 7), _geti(impl, b'E%'))
    post = h.call(impl.execute, b'E%=FRE("")*0+1')
    h.require('next-collection-runs', post[0] == 'ok', post)
    got = h.call(impl.get_variable, b'S$')
    h.require('string-kept', got[0] == 'ok' and bool(bytes_eq(got[1], list(sv))), got)
    return [res[0], post[0]]


def cases(tier):
    return [Case('sum-two-params-and-global', body_sum, timeout_s=3000, max_paths=400000),
            Case('parameter-shadows-global', body_shadow, timeout_s=3000),
            Case('nested-functions', body_nested, timeout_s=3000, max_paths=400000),
            Case('error-inside-body', body_div, timeout_s=3000),
            Case('type-mismatch-argument', body_mismatch),
            Case('duplicate-parameter', body_duplicate_param),
            Case('result-conversion-overflow', body_result_conversion, timeout_s=3000),
            Case('deftype-change-between-def-and-call', body_deftype_change),
            Case('string-parameter-with-collection', body_string_param),
            Case('call-fails-on-argument-type', body_failed_call, params={'which': 'type'}),
            Case('call-fails-on-recursion', body_failed_call, params={'which': 'recursion'}),
            Case('self-recursion', body_recursion, params={'mutual': False}),
            Case('mutual-recursion', body_recursion, params={'mutual': True})]
