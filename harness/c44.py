"""C44 -- TIME$, DATE$ read back what was set (ENVIRON: not encodable, see BOUNDS).

Real code: Clock.time_ / date_ / time_fn_ / date_fn_ with a contract stub for module datetime.
"""
from symx.runner import Case
from .common import *
from . import stubs

ORACLE = ('a component is canonical when it consists of ASCII digits only; a canonical value in range '
          'must be accepted and read back zero-padded; a component with a minus sign, an out-of-range '
          'value or a non-numeric byte must raise Illegal function call and leave the clock offset '
          'unchanged; nothing but a BASIC error may be raised for any byte string')
BOUNDS = {'TIME$': 'every byte string of length 0..4 (quick) / 0..5 (thorough), all 256 byte values; '
                   'plus the template d?d?:d?d?:d?d? with every digit symbolic',
          'DATE$': 'template M?M sep D?D sep Y{1,4} with every digit symbolic and both separators any byte',
          'clock': 'datetime is a contract stub: constructor accepts exactly the documented ranges '
                   '(incl. days per month and leap years), now() is a fixed instant (29 Feb 2024 '
                   '13:14:15.678901), the clock does not advance between set and read',
          'lenient forms': 'components with "+", surrounding blanks or "_" (accepted by Python int()) are '
                           'neither required to be accepted nor to be rejected; if accepted the read-back '
                           'must equal the parsed value',
          'outside': 'ENVIRON / ENVIRON$ (str and codepage conversions are not modelled by the engine)'}
ASSUMPTIONS = ['z3 decides the formulas', 'symx models validated per path',
               'the datetime stub is used in the symbolic and in the concrete validation run']


def _clock(h):
    vals = mk_values_s(h)
    C = h.P.basic.clock._module()
    C.datetime = stubs.DateTimeModule          # the stub replaces module datetime in both copies
    clk = C.Clock(vals)
    clk.time_offset = stubs.TD()
    return vals, clk


def _digits_only(items):
    return s_and(*[s_and(c >= 48, c <= 57) for c in items]) if items else False


def _val(items):
    v = 0
    for c in items:
        v = v * 10 + (c - 48)
    return v


def body_time_free(h):
    """arbitrary byte strings"""
    L = h.params['len']
    vals, clk = _clock(h)
    sb = h.bytes('t', L)
    res = h.call(clk.time_, iter([mk_str(h, vals, sb)]))
    items = list(sb)
    h.require('only-basic-errors', res[0] != 'exc')
    if res[0] == 'err':
        h.require('error-is-ifc', res[1] == IFC)
        h.require('offset-unchanged-on-error', clk.time_offset.is_zero())
    # canonical single component hh (digits only)
    if L and bool(_digits_only(items)):
        v = _val(items)
        if v <= 23:
            h.require('canonical-hour-accepted', res[0] == 'ok')
        else:
            h.require('hour-out-of-range-rejected', res[0] == 'err')
    if L and bool(items[0] == 45):
        # leading minus sign: a negative component is never a valid time
        rest = items[1:]
        if rest and bool(_digits_only(rest)) and bool(_val(rest) > 0):
            h.require('negative-hour-rejected', res[0] == 'err')
    out = None
    if res[0] == 'ok':
        back = h.call(clk.time_fn_, iter([]))
        h.require('time$-readable', back[0] == 'ok')
        if back[0] == 'ok':
            out = list(back[1].to_str())
            h.require('time$-format', len(out) == 8 and out[2] == 58 and out[5] == 58)
    return [res[0], res[1] if res[0] != 'ok' else None, out]


def body_time_template(h):
    """hh[:mm[:ss]] with symbolic digits (1 or 2 per component) and symbolic separators"""
    shape = h.params['shape']          # digits per component, e.g. (2, 2, 2)
    vals, clk = _clock(h)
    comps, text = [], []
    for k, nd in enumerate(shape):
        ds = [h.int('c%dd%d' % (k, q), 48, 57) for q in range(nd)]
        comps.append(_val(ds))
        if k:
            sep = h.byte('sep%d' % k)
            h.assume(s_or(sep == 58, sep == 46))      # ':' or '.'
            text.append(sep)
        text.extend(ds)
    sb = seqs_bytes(h, text)
    res = h.call(clk.time_, iter([mk_str(h, vals, sb)]))
    hh = comps[0]
    mm = comps[1] if len(comps) > 1 else 0
    ss = comps[2] if len(comps) > 2 else 0
    valid = s_and(hh <= 23, mm <= 59, ss <= 59)
    h.require('only-basic-errors', res[0] != 'exc')
    if res[0] == 'ok':
        h.require('invalid-time-rejected', valid)
        back = h.call(clk.time_fn_, iter([]))
        if back[0] != 'ok':
            h.require('time$-readable', False)
            return [res[0]]
        out = list(back[1].to_str())
        want = [hh // 10 + 48, hh % 10 + 48, 58, mm // 10 + 48, mm % 10 + 48, 58,
                ss // 10 + 48, ss % 10 + 48]
        h.require('time$-returns-value-set', bytes_eq(out, want))
        return [res[0], out]
    h.require('valid-time-accepted', s_and(res[0] == 'err', res[1] == IFC, s_not(valid)))
    h.require('offset-unchanged-on-error', clk.time_offset.is_zero())
    return [res[0], res[1]]


def seqs_bytes(h, items):
    from symx import seqs
    return seqs.mk_bytes(items) if h.symbolic else bytes(items)


def body_date_template(h):
    shape = h.params['shape']          # digits of (month, day, year)
    vals, clk = _clock(h)
    comps, text = [], []
    seps = []
    for k, nd in enumerate(shape):
        ds = [h.int('c%dd%d' % (k, q), 48, 57) for q in range(nd)]
        comps.append(_val(ds))
        if k:
            sep = h.byte('sep%d' % k)
            seps.append(sep)
            text.append(sep)
        text.extend(ds)
    sb = seqs_bytes(h, text)
    res = h.call(clk.date_, iter([mk_str(h, vals, sb)]))
    mo, dd, yy = comps
    goodsep = s_and(*[s_or(s == 45, s == 47) for s in seps])
    year = ite(yy <= 77, 2000 + yy, ite(s_and(yy >= 80, yy <= 99), 1900 + yy, yy))
    yvalid = s_or(yy <= 77, s_and(yy >= 80, yy <= 99), s_and(yy >= 1980, yy <= 2099))
    valid = s_and(goodsep, yvalid, mo >= 1, mo <= 12, dd >= 1, dd <= stubs._dim(year, mo))
    h.require('only-basic-errors', res[0] != 'exc')
    if res[0] == 'ok':
        h.require('invalid-date-rejected', valid)
        back = h.call(clk.date_fn_, iter([]))
        if back[0] != 'ok':
            h.require('date$-readable', False)
            return [res[0]]
        out = list(back[1].to_str())
        want = [mo // 10 + 48, mo % 10 + 48, 45, dd // 10 + 48, dd % 10 + 48, 45,
                year // 1000 + 48, (year // 100) % 10 + 48, (year // 10) % 10 + 48, year % 10 + 48]
        h.require('date$-returns-value-set', bytes_eq(out, want))
        return [res[0], out]
    if res[0] == 'err':
        # a separator that is a digit / sign / blank changes the meaning of the string; only
        # claim rejection is justified when the separators are not such bytes
        plainsep = s_and(*[s_and(s_or(s < 48, s > 57), s != 43, s != 95, s != 32, s != 9, s != 10,
                                 s != 11, s != 12, s != 13) for s in seps])
        h.require('valid-date-accepted', s_and(res[1] == IFC, s_or(s_not(valid), s_not(plainsep))))
        h.require('offset-unchanged-on-error', clk.time_offset.is_zero())
    return [res[0], res[1]]


def cases(tier):
    cs = []
    maxl = 5 if tier == 'thorough' else 4
    for L in range(0, maxl + 1):
        cs.append(Case('time-bytes-%d' % L, body_time_free, params={'len': L}, max_paths=400000,
                       timeout_s=3000))
    for shape in [(1,), (2,), (1, 1), (2, 2), (2, 2, 2), (1, 2, 1), (2, 1, 2), (3,), (2, 3)]:
        cs.append(Case('time-%s' % 'x'.join(map(str, shape)), body_time_template,
                       params={'shape': shape}))
    for shape in [(2, 2, 2), (1, 1, 2), (2, 2, 4), (1, 2, 4), (2, 2, 3), (2, 2, 1), (3, 2, 2), (2, 3, 2)]:
        cs.append(Case('date-%s' % 'x'.join(map(str, shape)), body_date_template,
                       params={'shape': shape}, timeout_s=1500))
    return cs
