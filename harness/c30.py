"""C30 -- Graphics never draws outside the viewport or the active page (clipping kernel).

Real code: GraphicsViewPort.__setitem__ / _convert_slice / _convert_coords / contains /
get_bounds / cutoff_coord / set, Graphics._draw_box_filled, Graphics._draw_straight, the text
mode guards of every graphics statement.
"""
from symx.runner import Case
from .common import *

ORACLE = ('the pixel store is a recorder with the indexing semantics of ByteMatrix (Python list / '
          'bytearray indexing: negative indices and slice bounds wrap around); the set of absolute '
          'pixels an index addresses must lie inside viewport rectangle and screen')
BOUNDS = {'screen': 'symbolic width and height 1..1024', 'viewport': 'any rectangle inside the screen, '
          'absolute (VIEW SCREEN) or relative, or unset', 'coordinates': 'all integers -32768..32767',
          'primitives': 'single pixel writes (PSET, lines, circles, PAINT seeds all end here), filled '
                        'boxes (LINE BF, VIEW fill) through the real _draw_box_filled, sprite '
                        'rectangles after the real containment test of PUT, PAINT interval writes',
          'outside': 'WINDOW coordinate scaling (Python floats), the arithmetic of CIRCLE/PAINT/DRAW '
                     'that computes the coordinates before they reach the viewport, active-page '
                     'selection (set_page is handed the page by Display)'}
ASSUMPTIONS = ['z3 decides the formulas', 'symx models validated per path',
               'pixel store replaced by a recorder; viewport objects built directly on it']


class Recorder(object):
    """Stands in for a ByteMatrix page: remembers every index written or read."""

    def __init__(self, width, height):
        self.width, self.height = width, height
        self.writes = []
        self.reads = []

    def __setitem__(self, index, value):
        self.writes.append(index)

    def __getitem__(self, index):
        self.reads.append(index)
        return 0


def _setup(h):
    W = h.int('W', 1, 1024)
    Hh = h.int('H', 1, 1024)
    G = h.P.basic.display.graphics
    rec = Recorder(W, Hh)
    gv = G.GraphicsViewPort(rec)
    mode = h.concretize(h.int('viewmode', 0, 2))       # 0 unset, 1 relative, 2 absolute
    if mode:
        vx0, vy0 = h.int('vx0', 0, 1023), h.int('vy0', 0, 1023)
        vx1, vy1 = h.int('vx1', 0, 1023), h.int('vy1', 0, 1023)
        h.assume(s_and(vx0 < W, vx1 < W, vy0 < Hh, vy1 < Hh))
        gv.set(vx0, vy0, vx1, vy1, mode == 2)
        rx0, rx1 = ite(vx0 < vx1, vx0, vx1), ite(vx0 < vx1, vx1, vx0)
        ry0, ry1 = ite(vy0 < vy1, vy0, vy1), ite(vy0 < vy1, vy1, vy0)
    else:
        rx0, ry0, rx1, ry1 = 0, 0, W - 1, Hh - 1
    return G, rec, gv, (W, Hh), (rx0, ry0, rx1, ry1)


def _eff(a, b, L):
    """Python slice(a, b) on a sequence of length L -> effective [lo, hi) (hi <= lo: empty)"""
    def norm(v):
        v = ite(v < 0, v + L, v)
        return ite(v < 0, 0, ite(v > L, L, v))
    return norm(a), norm(b)


def _inside(index, dims, rect):
    """formula: every pixel addressed by the recorded index is inside rect (and the screen)"""
    W, Hh = dims
    rx0, ry0, rx1, ry1 = rect
    ys, xs = index
    conds = []
    for s, L, lo, hi in ((xs, W, rx0, rx1), (ys, Hh, ry0, ry1)):
        if isinstance(s, slice):
            a = 0 if s.start is None else s.start
            b = L if s.stop is None else s.stop
            ea, eb = _eff(a, b, L)
            conds.append(('range', ea, eb, lo, hi))
        else:
            # integer index: negative wraps in Python
            conds.append(('point', s, L, lo, hi))
    (kx, *cx), (ky, *cy) = conds
    parts = []
    empties = []
    for kind, c in ((kx, cx), (ky, cy)):
        if kind == 'range':
            ea, eb, lo, hi = c
            empties.append(eb <= ea)
            parts.append(s_and(ea >= lo, eb <= hi + 1))
        else:
            s, L, lo, hi = c
            empties.append(False)
            parts.append(s_and(s >= 0, s < L, s >= lo, s <= hi))
    # an empty slice on either axis addresses nothing
    return s_or(s_or(*empties), s_and(*parts))


def _obs(rec):
    out = []
    for ys, xs in rec.writes:
        out.append([[s.start, s.stop] if isinstance(s, slice) else s for s in (ys, xs)])
    return out


def body_pixel(h):
    G, rec, gv, dims, rect = _setup(h)
    x, y = h.int('x', -32768, 32767), h.int('y', -32768, 32767)
    gv[y, x] = 7
    h.require('one-store-access', len(rec.writes) == 1)
    h.require('pixel-inside-viewport', _inside(rec.writes[0], dims, rect))
    # contains() agrees with the rectangle (in viewport coordinates)
    ax, ay = (x, y) if gv._absolute else (x + rect[0], y + rect[1])
    inside = s_and(ax >= rect[0], ax <= rect[2], ay >= rect[1], ay <= rect[3])
    h.require('contains-is-rectangle-test', s_iff(gv.contains(x, y), inside))
    return _obs(rec)


def _graphics(h, G, gv):
    g = object.__new__(G.Graphics)
    g.graph_view = gv
    return g


def body_boxfill(h):
    G, rec, gv, dims, rect = _setup(h)
    g = _graphics(h, G, gv)
    c = [h.int(n, -32768, 32767) for n in ('x0', 'y0', 'x1', 'y1')]
    g._draw_box_filled(c[0], c[1], c[2], c[3], 3)
    h.require('one-store-access', len(rec.writes) == 1)
    h.require('box-inside-viewport', _inside(rec.writes[0], dims, rect))
    return _obs(rec)


def body_straight(h):
    """horizontal / vertical runs of the box outline: every pixel written is inside"""
    G, rec, gv, dims, rect = _setup(h)
    g = _graphics(h, G, gv)
    p0 = h.int('p0', -32768, 32767)
    ln = h.concretize(h.int('len', 0, 2))
    q = h.int('q', -32768, 32767)
    vertical = h.concretize(h.int('vertical', 0, 1))
    back = h.concretize(h.int('back', 0, 1))
    p1 = p0 - ln if back else p0 + ln
    if vertical:
        g._draw_straight(q, p0, q, p1, 2, 0xffff, 0x8000)
    else:
        g._draw_straight(p0, q, p1, q, 2, 0xffff, 0x8000)
    h.require('pixels-written', len(rec.writes) == ln + 1)
    h.require('run-inside-viewport', s_and(*[_inside(w, dims, rect) for w in rec.writes]))
    return _obs(rec)


def body_sprite(h):
    """PUT: after the real containment test of both corners the rectangle slice is inside"""
    G, rec, gv, dims, rect = _setup(h)
    x0, y0 = h.int('x0', -32768, 32767), h.int('y0', -32768, 32767)
    w, hh = h.int('w', 1, 1024), h.int('h', 1, 1024)
    x1, y1 = x0 + w - 1, y0 + hh - 1
    if gv.contains(x0, y0) and gv.contains(x1, y1):
        gv[y0:y1 + 1, x0:x1 + 1] = 1
        h.require('sprite-inside-viewport', _inside(rec.writes[0], dims, rect))
        # and it is the whole sprite: width and height preserved
        ys, xs = rec.writes[0]
        h.require('sprite-size-kept', s_and(xs.stop - xs.start == w, ys.stop - ys.start == hh))
    else:
        h.require('nothing-written', len(rec.writes) == 0)
    return _obs(rec)


def body_scanline(h):
    """PAINT's interval write graph_view[y, xl:xr+1] with xl, xr taken from inside the view"""
    G, rec, gv, dims, rect = _setup(h)
    y = h.int('y', -32768, 32767)
    xl, xr = h.int('xl', -32768, 32767), h.int('xr', -32768, 32767)
    # precondition established by _flood_fill / _scanline_until: the interval was read from
    # inside the viewport (both ends satisfy contains) -- assumed here, see BOUNDS
    h.assume(s_and(gv.contains(xl, y), gv.contains(xr, y)))
    gv[y, xl:xr + 1] = 5
    h.require('interval-inside-viewport', _inside(rec.writes[0], dims, rect))
    return _obs(rec)


def body_textmode(h):
    """every graphics statement raises Illegal function call in text mode before reading args"""
    G = h.P.basic.display.graphics
    dummy = h.int('dummy', 0, 1)

    class Mode(object):
        is_text_mode = True

    touched = []

    def args():
        touched.append(1)
        yield None

    g = object.__new__(G.Graphics)
    g._mode = Mode()
    rec = Recorder(8, 8)
    g.graph_view = G.GraphicsViewPort(rec)
    names = ['view_', 'window_', 'pset_', 'preset_', 'line_', 'circle_', 'paint_', 'put_', 'get_',
             'draw_']
    obs = []
    for n in names:
        touched[:] = []
        res = h.call(getattr(g, n), args())
        obs.append([n, res[0], res[1] if res[0] != 'ok' else None])
        h.require(n + '-ifc-in-text-mode', res[0] == 'err' and res[1] == IFC)
        h.require(n + '-consumes-no-argument', not touched)
    h.require('nothing-drawn', not rec.writes)
    return obs


def cases(tier):
    return [Case('pixel', body_pixel, backend='INT'),
            Case('box-filled', body_boxfill, backend='INT', timeout_s=1200),
            Case('sprite', body_sprite, backend='INT'),
            Case('scanline', body_scanline, backend='INT'),
            Case('text-mode-guards', body_textmode)]
