"""C23 -- RUN, CLEAR and NEW reset state (program templates; the CHAIN/COMMON sentence is outside).

Real code: the whole interpreter; Implementation.clear_ / new_ / run_ / _clear_all,
DataSegment.clear, Interpreter.clear / clear_stacks_and_pointers, Randomiser.clear.
"""
from symx.runner import Case
from .common import *
from . import session
from .c19 import _setup, _geti

ORACLE = ('after the command: no scalar, array, DEF FN, DEFtype setting, OPTION BASE, FOR/WHILE/GOSUB '
          'stack entry or error trap of the previous state is left, and the random sequence restarts with '
          'the first value of a fresh session (probed through BASIC statements and through the '
          'interpreter objects)')
BOUNDS = {'state': 'one template state: integer/single/double/string scalars and an array with symbolic '
                   'contents, DEFINT A-Z, OPTION BASE 1, DEF FN, an open FOR loop, WHILE loop and GOSUB, ON '
                   'ERROR GOTO, three RND draws', 'commands': 'CLEAR, NEW, RUN (empty program), RUN n',
          'outside': 'CHAIN / COMMON (file handling), CLEAR with memory arguments, files left open'}
ASSUMPTIONS = ['z3 decides the formulas', 'symx models validated per path',
               'mostly concrete control flow: the solver only confirms that no symbolic byte of the old '
               'state is observable afterwards']

PROG = [b'10 DEFINT A-Z: OPTION BASE 1: DIM Q(3): DEF FNA(X)=X+1: ON ERROR GOTO 900',
        b'20 A=1: B!=2: C#=3: S$="xyz": Q(2)=7: R!=RND: R!=RND: R!=RND',
        b'30 FOR I=1 TO 5: WHILE 1: GOSUB 50: WEND: NEXT',
        b'50 STOP',
        b'900 RESUME NEXT']


def _first_rnd(h):
    impl = session.mk_impl(h)
    impl.execute(b'F!=RND')
    return list(impl.scalars._vars[b'F!'])


def body(h):
    cmd = h.params['cmd']
    impl = session.mk_impl(h)
    for l in PROG:
        impl.execute(l)
    impl.execute(b'RUN')
    # the program stopped inside FOR / WHILE / GOSUB with the full state set up
    pre_ok = (len(impl.interpreter.for_stack) == 1 and len(impl.interpreter.while_stack) == 1 and
              len(impl.interpreter.gosub_stack) == 1 and impl.interpreter.on_error == 900 and
              impl.arrays._base == 1 and len(impl.parser.user_functions._fn_dict) == 1 and
              b'A%' in impl.scalars._vars and b'Q%' in impl.arrays._dims)
    h.require('template-state-established', pre_ok)
    # make the old variable contents symbolic
    a = h.bytes('a', 2)
    impl.scalars._vars[b'A%'][:] = a
    q = h.bytes('q', 2)
    impl.arrays._buffers[b'Q%'][2:4] = q
    fresh = _first_rnd(h)
    impl.execute(cmd)
    it = impl.interpreter
    h.require('no-scalars', len(impl.scalars._vars) == 0)
    h.require('no-arrays', len(impl.arrays._dims) == 0 and len(impl.arrays._buffers) == 0)
    h.fact('is_clear', cmd == b'CLEAR')
    h.require('loop-stacks-empty', len(it.for_stack) == 0 and len(it.while_stack) == 0)
    h.require('gosub-stack-empty', len(it.gosub_stack) == 0)
    h.require('option-base-unset', impl.arrays._base is None)
    h.require('error-trap-cleared', not it.on_error)
    # probes through BASIC: old names read as zero, DEFINT gone (A is single again), FNA undefined,
    # OPTION BASE 0 allowed, RETURN without GOSUB, first RND of a fresh session
    # no error trap is left, so a division by zero is a soft error again: message, machine infinity, carry on
    impl.execute(b'X!=1/0: P%=1')
    # (ERR may still hold an earlier error of the command itself, e.g. RUN 900 runs into RESUME without error)
    h.require('soft-float-errors-restored', it.error_num != DIV0 and b'P%' in impl.scalars._vars, it.error_num)
    impl.execute(b'ON ERROR GOTO 0')
    impl.execute(b'T%=A%: V%=Q%(2)')
    h.require('old-values-gone', s_and(_geti(impl, b'T%') == 0, _geti(impl, b'V%') == 0))
    impl.execute(b'ERASE Q%: Z=1.5')
    h.require('deftype-reset', b'Z!' in impl.scalars._vars and b'Z%' not in impl.scalars._vars)
    impl.execute(b'W!=FNA(1)')
    h.require('def-fn-gone', it.error_num == 18)
    impl.execute(b'RETURN')
    h.require('return-without-gosub', it.error_num == 3)
    impl.execute(b'NEXT')
    h.require('next-without-for', it.error_num == 1)
    impl.execute(b'F!=RND')
    h.require('random-sequence-restarts', bytes_eq(list(impl.scalars._vars[b'F!']), fresh))
    # an explicit OPTION BASE set now must survive ERASE of the last array (no stale "set by DIM" flag)
    impl.execute(b'ERASE Q%')
    impl.execute(b'OPTION BASE 1: DIM W%(2): ERASE W%')
    impl.execute(b'OPTION BASE 0')
    h.require('no-stale-implicit-base-flag', it.error_num == DUPDEF)
    return [it.error_num]


def body_in_handler(h):
    """CLEAR / NEW / RUN n executed inside an active error handler: no pending RESUME is left"""
    cmd = h.params['cmd']
    prog = [b'10 ON ERROR GOTO 100', b'20 ERROR 9', b'30 END', b'100 ' + cmd + b': RESUME NEXT', b'200 RESUME NEXT']
    impl = session.mk_impl(h)
    for l in prog:
        impl.execute(l)
    impl.execute(b'Z%=0')
    z = h.bytes('z', 2)
    impl.scalars._vars[b'Z%'][:] = z
    impl.execute(b'GOTO 10')
    it = impl.interpreter
    # the RESUME NEXT that follows the command (same line for CLEAR, line 200 for RUN 200) finds no
    # pending error any more
    h.require('resume-without-error-after-reset', it.error_num == 20)
    return [it.error_num]


def cases(tier):
    cs = [Case('after-' + c.decode().replace(' ', '-').lower(), body, params={'cmd': c})
          for c in (b'CLEAR', b'NEW', b'RUN 900')]
    cs += [Case('in-handler-' + c.decode().replace(' ', '-').lower(), body_in_handler, params={'cmd': c})
           for c in (b'CLEAR', b'RUN 200')]
    return cs
