"""C22 -- READ returns DATA items in program order (program templates).

Real code: the whole interpreter; Interpreter.read_ / restore_, TokenisedStream.skip_to_token /
read_to / read_number, Values.from_repr, program memory strings.
"""
from symx.runner import Case
from .common import *
from . import session
from .c19 import _setup, _geti

ORACLE = ('the DATA items of the template in line and statement order; RESTORE restarts at the first, '
          'RESTORE n at the first DATA at or after line n; Out of DATA past the last; Syntax error in the '
          'DATA line for a non-numeric item read into a numeric variable')
BOUNDS = {'programs': 'one template with DATA spread over three statements on two lines and a symbolic '
                      'selector choosing among six READ / RESTORE scenarios; one template with a string item '
                      'of 2 symbolic bytes; one with a numeric item of 2 symbolic bytes',
          'outside': 'arbitrary programs and items, quoted items with symbolic content'}
ASSUMPTIONS = ['z3 decides the formulas', 'symx models validated per path',
               'symbolic item bytes are written into the stored program image after the line was entered']

PROG = [b'10 DATA 11,22', b'20 X%=0: DATA 33: DATA 44,55',
        b'30 ON S% GOTO 100,200,300,400,500,600',
        b'100 READ A%,B%,C%,D%,F%: E%=1: END',
        b'200 READ A%: RESTORE: READ B%: RESTORE 20: READ C%,D%: E%=1: END',
        b'300 READ A%,B%,C%,D%,F%,G%: E%=1: END',
        b'400 READ A%,B%,C%: RESTORE 20: READ D%: RESTORE 10: READ F%: E%=1: END',
        b'500 RESTORE 30: READ A%: E%=1: END',
        b'600 READ A%: READ B%: RESTORE 20: READ C%: READ D%: READ F%: READ G%: E%=1: END']
VARS = [b'S%', b'A%', b'B%', b'C%', b'D%', b'F%', b'G%', b'E%', b'X%']
EXPECT = {
    1: ([11, 22, 33, 44, 55, 0], 1, 0),
    2: ([11, 11, 33, 44, 0, 0], 1, 0),
    3: ([11, 22, 33, 44, 55, 0], 0, 4),
    4: ([11, 22, 33, 33, 11, 0], 1, 0),
    5: ([0, 0, 0, 0, 0, 0], 0, 4),
    6: ([11, 22, 33, 44, 55, 0], 0, 4),
}


def body_order(h):
    impl = _setup(h, PROG, VARS)
    s = h.bytes('s', 2)
    S = s16(s)
    h.assume(s_and(S >= 1, S <= 6))
    session.poke_int(h, impl, b'S%', s)
    impl.execute(b'GOTO 30')
    got = [_geti(impl, n) for n in (b'A%', b'B%', b'C%', b'D%', b'F%', b'G%')]
    E, err = _geti(impl, b'E%'), impl.interpreter.error_num
    for k, (vals, e, code) in EXPECT.items():
        cond = (S == k)
        h.require('scenario-%d-values' % k, s_implies(cond, s_and(*[g == v for g, v in zip(got, vals)])))
        h.require('scenario-%d-completion' % k, s_implies(cond, s_and(E == e, err == code)))
    return got + [E, err]


def _poke_program(h, impl, marker, data):
    """overwrite the bytes `marker` in the stored program with `data` (same length)"""
    code = impl.program.bytecode
    image = bytes(code.getvalue()) if not h.symbolic else code.getvalue()
    pos = bytes(image).find(marker) if not h.symbolic else _find(image, marker)
    assert pos >= 0
    cur = code.tell()
    code.seek(pos)
    code.write(data)
    code.seek(cur)


def _find(image, marker):
    # the image is concrete at this point (symbolic bytes are only written afterwards)
    from symx import seqs
    items = list(image)
    return bytes(items).find(marker)


def body_string_item(h):
    prog = [b'10 DATA @@,7', b'20 READ A$,B%: L%=LEN(A$): P%=ASC(A$): Q%=ASC(MID$(A$,2)): E%=1']
    impl = _setup(h, prog, [b'L%', b'P%', b'Q%', b'B%', b'E%'])
    it = h.bytes('i', 2)
    c0, c1 = list(it)
    # item characters: anything that does not end or quote the item and no blank at the ends
    for c in (c0, c1):
        h.assume(s_and(c != 44, c != 34, c != 58, c != 0, c != 32, c != 9, c != 10, c != 13))
    _poke_program(h, impl, b'@@', it)
    impl.execute(b'GOTO 20')
    h.require('string-item-returned-as-written', s_and(_geti(impl, b'L%') == 2, _geti(impl, b'P%') == c0,
                                                       _geti(impl, b'Q%') == c1))
    h.require('next-item-follows', s_and(_geti(impl, b'B%') == 7, _geti(impl, b'E%') == 1,
                                         impl.interpreter.error_num == 0))
    return [_geti(impl, b'P%'), _geti(impl, b'Q%')]


def body_numeric_item(h):
    prog = [b'10 X%=0', b'20 DATA @@,7', b'30 READ A%,B%: E%=1']
    impl = _setup(h, prog, [b'A%', b'B%', b'E%', b'C%', b'L%'])
    it = h.bytes('i', 2)
    c0, c1 = list(it)
    for c in (c0, c1):
        h.assume(s_and(c != 44, c != 58, c != 0))
    _poke_program(h, impl, b'@@', it)
    impl.execute(b'GOTO 30')
    err = impl.interpreter.error_num
    impl.execute(b'C%=ERR: L%=ERL')
    dig = lambda c: s_and(c >= 48, c <= 57)
    both = s_and(dig(c0), dig(c1))
    h.require('digits-read-as-number', s_implies(both, s_and(_geti(impl, b'A%') == (c0 - 48) * 10 + (c1 - 48),
                                                             _geti(impl, b'B%') == 7, _geti(impl, b'E%') == 1,
                                                             err == 0)))
    # letters (not part of any number syntax) are a Syntax error reported for the DATA line
    letter = lambda c: s_or(s_and(c >= 71, c <= 90), s_and(c >= 103, c <= 122))
    bad = s_or(s_and(dig(c0), letter(c1)), s_and(letter(c0), letter(c1)))
    # (an untrapped Syntax error opens the line editor, which resets ERR; ERL still names the line)
    h.require('non-numeric-item-syntax-error-on-data-line', s_implies(bad, s_and(s_or(err == 2, err == 0), _geti(impl, b'L%') == 20,
                                                                                 _geti(impl, b'E%') == 0)))
    return [_geti(impl, b'A%'), err]


def body_later_line(h):
    """the bad item sits in a later DATA line than the previously read item"""
    prog = [b'10 X%=0', b'20 DATA 1', b'30 ON ERROR GOTO 100: READ A%,B%: E%=1: END', b'50 DATA @@',
            b'100 C%=ERR: L%=ERL: RESUME 110', b'110 END']
    impl = _setup(h, prog, [b'A%', b'B%', b'E%', b'C%', b'L%'])
    it = h.bytes('i', 2)
    c0, c1 = list(it)
    letter = lambda c: s_or(s_and(c >= 71, c <= 90), s_and(c >= 103, c <= 122))
    h.assume(s_and(s_or(letter(c0), s_and(c0 >= 48, c0 <= 57)), letter(c1)))
    _poke_program(h, impl, b'@@', it)
    impl.execute(b'GOTO 30')
    h.require('first-item-read', _geti(impl, b'A%') == 1)
    h.require('syntax-error-trapped', _geti(impl, b'C%') == 2)
    h.require('erl-is-the-data-line-of-the-bad-item', _geti(impl, b'L%') == 50)
    return [_geti(impl, b'C%'), _geti(impl, b'L%')]


def body_layouts(h):
    """DATA behind two-byte function tokens on the same line, quoted items, unclosed quote at line end"""
    prog = [b'10 X!=FRE(0): DATA 5', b'20 DATA "a,b", "cde', b'30 DATA 7: X%=1: DATA 8',
            b'40 READ A%,B$,C$,D%,F%: L%=LEN(B$): M%=LEN(C$): P%=ASC(MID$(C$,3)): E%=S%: END']
    impl = _setup(h, prog, [b'A%', b'D%', b'F%', b'L%', b'M%', b'P%', b'E%', b'S%', b'X%'])
    s = h.bytes('s', 2)
    session.poke_int(h, impl, b'S%', s)
    impl.execute(b'GOTO 40')
    h.require('data-after-function-token-found', _geti(impl, b'A%') == 5)
    h.require('quoted-item-with-comma', _geti(impl, b'L%') == 3)
    h.require('unclosed-quoted-item-complete', s_and(_geti(impl, b'M%') == 3, _geti(impl, b'P%') == 101))
    h.require('data-after-other-statement-on-line', s_and(_geti(impl, b'D%') == 7, _geti(impl, b'F%') == 8))
    h.require('completed', s_and(_geti(impl, b'E%') == s16(s), impl.interpreter.error_num == 0))
    return [_geti(impl, b'A%'), _geti(impl, b'M%')]


def cases(tier):
    return [Case('order-and-restore', body_order),
            Case('string-item', body_string_item, timeout_s=1500),
            Case('numeric-item', body_numeric_item, timeout_s=1500, max_fanout=400),
            Case('bad-item-in-later-line', body_later_line, timeout_s=1500, max_fanout=400),
            Case('data-layouts', body_layouts)]
