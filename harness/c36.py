"""C36 -- The text cursor and screen content stay consistent (program templates on the real text screen).

Real code: the whole interpreter; TextScreen.locate_ / set_pos / write / csrlin_ / pos_ / screen_fn_ /
view_print_, the scrolling logic, on the default 25x80 text screen.
"""
from symx.runner import Case
from .common import *
from . import session
from .c19 import _setup, _geti

ORACLE = ('LOCATE r,c: accepted iff 1 <= r <= 24 (25 with the key line off ... the template keeps KEY OFF so '
          'row 25 is addressable) and 1 <= c <= 80, then CSRLIN = r and POS = c; otherwise Illegal function '
          'call and the cursor stays; a printable character written at (r,c) is returned by SCREEN(r,c) and '
          'moves the cursor one cell right, wrapping to the next row at column 80 and scrolling only inside '
          'the VIEW PRINT window')
BOUNDS = {'LOCATE': 'every 16-bit row with a fixed column and every 16-bit column with a fixed row',
          'writing': 'the character A at a symbolic row 1..24 in column 1, 40 or 80 and at a symbolic column '
                     '1..80 in row 1, 12 or 24; every printable character 32..126 at (12,40) and (10,80); VIEW PRINT 5 TO 10 with writes at '
                     'the last window row and column 80; LOCATE to every column after a row filled to its last column; '
                     '1..165 characters printed from the bottom row of VIEW PRINT windows 3-10, 5-5, 1-24; five '
                     'characters printed at every column of row 25; 1..4 lines printed from rows 1, 12, 22, 23, 24 (plain, after a visit to row 25, after WIDTH 40 under VIEW PRINT 3 TO 24); VIEW PRINT after a full row', 'outside': 'control characters, DBCS, WIDTH 40, '
          'graphics modes, longer print histories'}
ASSUMPTIONS = ['z3 decides the formulas', 'symx models validated per path']


def body_locate(h):
    which = h.params['which']
    stmt = b'LOCATE A%,20' if which == 'row' else b'LOCATE 10,A%'
    # (a trapped error prints nothing, so the cursor can be inspected afterwards)
    prog = [b'10 ON ERROR GOTO 100: LOCATE 3,7: ' + stmt + b': E%=1',
            b'20 R%=CSRLIN: C%=POS(0): END', b'100 F%=ERR: RESUME 20']
    impl = _setup(h, prog, [b'A%', b'R%', b'C%', b'E%', b'F%'])
    impl.execute(b'KEY OFF: CLS')
    a = h.bytes('a', 2)
    A = s16(a)
    session.poke_int(h, impl, b'A%', a)
    impl.execute(b'GOTO 10')
    R, C, E, F = [_geti(impl, n) for n in (b'R%', b'C%', b'E%', b'F%')]
    if which == 'row':
        ok = s_and(A >= 1, A <= 25)
        h.require('moved-to-requested-cell', s_implies(ok, s_and(R == A, C == 20, E == 1, F == 0)))
    else:
        ok = s_and(A >= 1, A <= 80)
        h.require('moved-to-requested-cell', s_implies(ok, s_and(R == 10, C == A, E == 1, F == 0)))
    h.require('illegal-function-call-and-cursor-stays', s_implies(s_not(ok), s_and(F == IFC, R == 3, C == 7, E == 0)))
    return [R, C, F]


def body_write(h):
    which, fixed = h.params['which'], h.params['fixed']
    impl = _setup(h, [], [b'A%', b'X%', b'R%', b'C%', b'S%', b'T%'])
    impl.execute(b'KEY OFF: CLS')
    lim = 24 if which == 'row' else 80
    # (the cell (24,80) scrolls the screen when written: excluded)
    if which == 'row' and fixed == 80:
        lim = 23
    if which == 'col' and fixed == 24:
        lim = 79
    if h.params.get('symchar'):
        a = h.params['pos']
        x = h.int('x', 32, 126)
    else:
        a = h.int('a', 1, lim)
        x = 65
    session.poke_int(h, impl, b'A%', seq2(h, a))
    session.poke_int(h, impl, b'X%', seq2(h, x))
    if which == 'row':
        impl.execute(('LOCATE A%%,%d: PRINT CHR$(X%%);: R%%=CSRLIN: C%%=POS(0): S%%=SCREEN(A%%,%d)' % (fixed, fixed)).encode())
        row, col = a, fixed
    else:
        impl.execute(('LOCATE %d,A%%: PRINT CHR$(X%%);: R%%=CSRLIN: C%%=POS(0): S%%=SCREEN(%d,A%%)' % (fixed, fixed)).encode())
        row, col = fixed, a
    R, C, S = _geti(impl, b'R%'), _geti(impl, b'C%'), _geti(impl, b'S%')
    h.require('no-error', impl.interpreter.error_num == 0)
    # after writing in column 80 the cursor hangs at the end of the row (GW-BASIC prints the next
    # character on the next row); CSRLIN/POS then report the next row, column 1
    wrapped = (col == 80)
    h.require('character-stored-at-the-cell', S == x)
    h.require('cursor-advances', s_and(C == ite(wrapped, 1, col + 1), R == ite(wrapped, row + 1, row)))
    h.require('cursor-inside-screen', s_and(R >= 1, R <= 25, C >= 1, C <= 80))
    return [R, C, S]


def seq2(h, v):
    from symx import seqs
    items = s16_bytes(v)
    return seqs.mk_bytes(items) if h.symbolic else bytes(items)


def body_view_print(h):
    """scrolling happens only inside the VIEW PRINT window"""
    impl = _setup(h, [], [b'X%', b'Y%', b'R%', b'C%', b'S1%', b'S2%', b'S3%', b'S4%'])
    impl.execute(b'KEY OFF: CLS: LOCATE 4,1: PRINT "above";: LOCATE 11,1: PRINT "below";')
    x, y = h.int('x', 33, 126), 90
    session.poke_int(h, impl, b'X%', seq2(h, x))
    session.poke_int(h, impl, b'Y%', seq2(h, y))
    impl.execute(b'VIEW PRINT 5 TO 10: LOCATE 10,1: PRINT CHR$(X%): PRINT CHR$(Y%);')
    impl.execute(b'R%=CSRLIN: C%=POS(0): S1%=SCREEN(9,1): S2%=SCREEN(10,1)')
    impl.execute(b'VIEW PRINT: S3%=SCREEN(4,1): S4%=SCREEN(11,1)')
    R, C = _geti(impl, b'R%'), _geti(impl, b'C%')
    h.require('no-error', impl.interpreter.error_num == 0)
    h.require('window-scrolled-by-one-row', s_and(_geti(impl, b'S1%') == x, _geti(impl, b'S2%') == y))
    h.require('rows-outside-window-unchanged', s_and(_geti(impl, b'S3%') == 97, _geti(impl, b'S4%') == 98))
    h.require('cursor-stays-in-window', s_and(R == 10, C == 2))
    return [R, C]


def body_overflow_locate(h):
    """a row filled exactly to its last column leaves the cursor hanging; LOCATE must clear that"""
    impl = _setup(h, [], [b'A%', b'R%', b'C%', b'S%', b'P%', b'N%'])
    impl.execute(b'KEY OFF: CLS')
    a = h.int('a', 1, 80)
    session.poke_int(h, impl, b'A%', seq2(h, a))
    impl.execute(b'LOCATE 5,1: PRINT STRING$(80,"a");: LOCATE 7,A%: PRINT "X";: R%=CSRLIN: C%=POS(0): S%=SCREEN(7,A%)')
    impl.execute(b'P%=32: N%=32: IF A%>1 THEN P%=SCREEN(7,A%-1)')
    impl.execute(b'IF A%<80 THEN N%=SCREEN(7,A%+1)')
    R, C, S, P, N = [_geti(impl, n) for n in (b'R%', b'C%', b'S%', b'P%', b'N%')]
    h.require('no-error', impl.interpreter.error_num == 0)
    h.require('character-at-the-located-cell', s_and(S == 88, P == 32, N == 32), [S, P, N])
    h.require('cursor-advances', s_and(C == ite(a == 80, 1, a + 1), R == ite(a == 80, 8, 7)), [R, C])
    return [R, C, S, P, N]


def body_window_fill(h):
    """printing N characters from the start of the bottom row of a VIEW PRINT window"""
    top, bottom = h.params['window']
    impl = _setup(h, [], [b'N%', b'R%', b'C%', b'S1%', b'S2%', b'S3%', b'S4%'])
    impl.execute(b'KEY OFF: CLS')
    if top > 1:
        impl.execute(b'LOCATE %d,1: PRINT "u";' % (top - 1))
    if bottom < 25:
        impl.execute(b'LOCATE %d,1: PRINT "d";' % (bottom + 1))
    n = h.int('n', 1, h.params['maxn'])
    session.poke_int(h, impl, b'N%', seq2(h, n))
    impl.execute(b'VIEW PRINT %d TO %d: LOCATE %d,1: PRINT STRING$(N%%,"a");: R%%=CSRLIN: C%%=POS(0)' % (top, bottom, bottom))
    impl.execute(b'S3%%=SCREEN(%d,1): VIEW PRINT: S1%%=117: S2%%=100' % bottom)
    if top > 1:
        impl.execute(b'S1%%=SCREEN(%d,1)' % (top - 1))
    if bottom < 25:
        impl.execute(b'S2%%=SCREEN(%d,1)' % (bottom + 1))
    R, C, S1, S2, S3 = [_geti(impl, x) for x in (b'R%', b'C%', b'S1%', b'S2%', b'S3%')]
    h.require('no-error', impl.interpreter.error_num == 0)
    h.require('cursor-stays-in-window', s_and(R >= top, R <= bottom, C >= 1, C <= 80), [R, C])
    # reference placement: the text occupies (n-1)//80 + 1 rows ending at the bottom row; the cursor
    # follows the last character, or hangs after column 80 (reported as column 1 of the row below,
    # which inside a window can only be the bottom row itself after the pending scroll)
    rem = n % 80
    h.require('column-follows-the-text', C == ite(rem == 0, 1, rem + 1), [C])
    h.require('rows-outside-window-unchanged', s_and(S1 == 117, S2 == 100), [S1, S2])
    # the bottom row holds the tail of the text unless the cursor hangs after a full row
    h.require('bottom-row-holds-text', S3 == 97, [S3])
    return [R, C, S1, S2, S3]


def body_row25(h):
    """row 25 lies outside the scroll area: writing there, however long, scrolls nothing"""
    impl = _setup(h, [], [b'A%', b'R%', b'C%', b'S1%', b'S2%', b'S3%'])
    impl.execute(b'KEY OFF: CLS: LOCATE 1,1: PRINT "R";: LOCATE 24,1: PRINT "Z";')
    a = h.int('a', 1, 80)
    session.poke_int(h, impl, b'A%', seq2(h, a))
    impl.execute(b'LOCATE 25,A%: PRINT "ABCDE";: R%=CSRLIN: C%=POS(0): S1%=SCREEN(1,1): S2%=SCREEN(24,1): S3%=SCREEN(25,A%)')
    R, C, S1, S2, S3 = [_geti(impl, x) for x in (b'R%', b'C%', b'S1%', b'S2%', b'S3%')]
    h.require('no-error', impl.interpreter.error_num == 0)
    h.require('rows-1-to-24-unchanged', s_and(S1 == 82, S2 == 90), [S1, S2])
    h.require('cursor-stays-on-row-25', s_and(R == 25, C >= 1, C <= 80), [R, C])
    h.require('first-character-at-located-cell', s_and(s_implies(a <= 79, S3 == 65), s_implies(a <= 75, C == a + 5)), [S3, C])
    return [R, C, S1, S2, S3]


def body_newlines(h):
    """lines printed from a symbolic row: the cursor goes down to the bottom of the scroll area and stays
    there (scrolling), row 25 is never entered or changed -- also after row 25 was visited with LOCATE,
    and after a mode change made with a VIEW PRINT window that reached row 24"""
    impl = _setup(h, [], [b'A%', b'N%', b'I%', b'R%', b'C%', b'S%', b'T%', b'U%'])
    impl.execute(b'KEY OFF: CLS')
    width = 80
    if h.params.get('width40'):
        impl.execute(b'VIEW PRINT 3 TO 24: WIDTH 40')
        width = 40
    marks = (32, 32)
    if h.params.get('visit25'):
        impl.execute(b'LOCATE 25,1: PRINT "st";')
        marks = (115, 116)
    a = h.choice('a', [1, 12, 22, 23, 24])
    n = h.int('n', 1, 4)
    session.poke_int(h, impl, b'A%', seq2(h, a))
    session.poke_int(h, impl, b'N%', seq2(h, n))
    impl.execute(b'LOCATE A%,1: FOR I%=1 TO N%: PRINT "x": NEXT: R%=CSRLIN: C%=POS(0): S%=SCREEN(25,1): T%=SCREEN(25,2): U%=SCREEN(24,1)')
    R, C, S, T = [_geti(impl, x) for x in (b'R%', b'C%', b'S%', b'T%')]
    h.require('no-error', impl.interpreter.error_num == 0, impl.interpreter.error_num)
    h.require('cursor-goes-down-to-row-24-and-stays', s_and(R == ite(a + n <= 24, a + n, 24), C == 1), [R, C])
    h.require('row-25-untouched', s_and(S == marks[0], T == marks[1]), [S, T])
    return [R, C, S, T]


def body_view_print_after_full_row(h):
    """VIEW PRINT moves the cursor to the top of the window and cancels a pending wrap"""
    top, bottom = h.choice('w', [(3, 10), (1, 24), (5, 5)])
    impl = _setup(h, [], [b'N%', b'R%', b'C%', b'S%', b'T%'])
    impl.execute(b'KEY OFF: CLS')
    n = h.choice('n', [79, 80])
    impl.execute(b'LOCATE 12,1: PRINT STRING$(%d,"A");: VIEW PRINT %d TO %d: PRINT "xy";: R%%=CSRLIN: C%%=POS(0): S%%=SCREEN(%d,1): T%%=SCREEN(%d,2)'
                 % (n, top, bottom, top, top))
    R, C, S, T = [_geti(impl, x) for x in (b'R%', b'C%', b'S%', b'T%')]
    h.require('no-error', impl.interpreter.error_num == 0, impl.interpreter.error_num)
    h.require('text-starts-at-the-window-top-left', s_and(S == 120, T == 121, R == top, C == 3), [R, C, S, T])
    return [R, C, S, T]


def cases(tier):
    cs = [Case('locate-row', body_locate, params={'which': 'row'}, max_fanout=200),
          Case('locate-col', body_locate, params={'which': 'col'}, max_fanout=200)]
    for fixed in (1, 40, 80):
        cs.append(Case('write-row-col%d' % fixed, body_write, params={'which': 'row', 'fixed': fixed},
                       max_fanout=400, timeout_s=1500))
    for fixed in (1, 12, 24):
        cs.append(Case('write-col-row%d' % fixed, body_write, params={'which': 'col', 'fixed': fixed},
                       max_fanout=400, timeout_s=1500))
    cs.append(Case('write-any-char', body_write, params={'which': 'row', 'fixed': 40, 'symchar': True, 'pos': 12},
                   max_fanout=400, timeout_s=1500))
    cs.append(Case('write-any-char-col80', body_write, params={'which': 'row', 'fixed': 80, 'symchar': True, 'pos': 10},
                   max_fanout=400, timeout_s=1500))
    cs.append(Case('view-print-scroll', body_view_print, max_fanout=400))
    cs.append(Case('locate-after-full-row', body_overflow_locate, max_fanout=400, timeout_s=1500))
    cs.append(Case('row-25', body_row25, max_fanout=400, timeout_s=1500))
    cs.append(Case('view-print-after-full-row', body_view_print_after_full_row, max_fanout=100))
    for name, p in (('plain', {}), ('after-visiting-row-25', {'visit25': True}),
                    ('after-width-40-with-window-to-24', {'width40': True, 'visit25': True})):
        cs.append(Case('newlines-' + name, body_newlines, params=p, max_fanout=100, timeout_s=900))
    windows = [(3, 10), (5, 5), (1, 24)] + ([(2, 23), (24, 24), (1, 1)] if tier == 'thorough' else [])
    for w in windows:
        cs.append(Case('window-fill-%d-%d' % w, body_window_fill,
                       params={'window': w, 'maxn': 240 if tier == 'thorough' else 165}, max_fanout=400, timeout_s=1500))
    return cs
