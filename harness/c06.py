"""C06 -- Numeric comparisons agree with the exact order of values.

Real code: values.eq/neq/gt/gte/lt/lte, match_types, Integer.gt/eq, Float.gt/eq/_abs_gt,
Float.from_int/_bring_to_range (integer promotion), Double.from_single.
Operands: raw symbolic bytes of every type pairing => all encodings, incl. non-canonical zeros.
"""
from symx.runner import Case
from .common import *

ORACLE = ('exact order of the represented values: zero iff exponent byte 0; otherwise '
          '(-1)^s * M * 2^(E-184) with the 56-bit normalised mantissa M, compared as '
          '(sign, exponent, mantissa); integers normalised exactly by case analysis')
BOUNDS = {'operands': 'all bit patterns of both operands for all 9 type pairings '
                      '(2^32 .. 2^128 pairs per pairing)', 'outside': 'strings'}
ASSUMPTIONS = ['z3 decides the bit-vector formulas correctly',
               'symx models of int/bytearray/memoryview/struct (validated per path)']

OPS = ['eq', 'neq', 'gt', 'gte', 'lt', 'lte']


def body(h):
    ta, tb = h.params['types']
    a = h.bytes('a', TYPES[ta])
    b = h.bytes('b', TYPES[tb])
    vals = mk_values(h)
    A, B = mk_num(h, vals, a), mk_num(h, vals, b)
    V = h.P.basic.values.values
    x, y = FVal.of_raw(a), FVal.of_raw(b)
    gt, eq = f_gt(x, y), f_eq(x, y)
    lt = f_gt(y, x)
    expect = {'eq': eq, 'neq': s_not(eq), 'gt': gt, 'lt': lt, 'gte': s_not(lt), 'lte': s_not(gt)}
    obs = []
    got = {}
    for op in h.params['ops']:
        res = h.call(getattr(V, op), A, B)
        r = bool_result(res)
        if r is None:
            h.require(op + '-returns-integer', False)
            obs.append([res[0], str(res[1])])
            continue
        # result is exactly -1 (ff ff) or 0 (00 00)
        h.require(op + '-is-minus1-or-0', s_or(bytes_eq(r, [255, 255]), bytes_eq(r, [0, 0])))
        truth = (r[0] != 0)
        got[op] = truth
        h.require(op + '-exact', s_iff(truth, expect[op]))
        obs.append(r)
    h.require('operands-unchanged', s_and(bytes_eq(raw_of(A), a), bytes_eq(raw_of(B), b)))
    if all(k in got for k in ('lt', 'eq', 'gt')):
        n = core.as_int(got['lt']) + core.as_int(got['eq']) + core.as_int(got['gt'])
        h.require('trichotomy', n == 1)
    if 'lte' in got and 'gt' in got:
        h.require('lte-is-not-gt', s_iff(got['lte'], s_not(got['gt'])))
    if 'gte' in got and 'lt' in got:
        h.require('gte-is-not-lt', s_iff(got['gte'], s_not(got['lt'])))
    if 'neq' in got and 'eq' in got:
        h.require('neq-is-not-eq', s_iff(got['neq'], s_not(got['eq'])))
    return obs


def cases(tier):
    cs = []
    for ta in 'isd':
        for tb in 'isd':
            if 'i' in (ta, tb) and (ta, tb) != ('i', 'i'):
                # integer promotion forks per bit length: split by operator group for parallelism
                for grp in (['eq', 'neq'], ['gt', 'lte'], ['lt', 'gte']):
                    cs.append(Case('cmp-%s%s-%s' % (ta, tb, grp[0]), body,
                                   params={'types': (ta, tb), 'ops': grp}, timeout_s=900))
                if tier == 'thorough':
                    cs.append(Case('cmp-%s%s-all' % (ta, tb), body,
                                   params={'types': (ta, tb), 'ops': OPS}, timeout_s=1800))
            else:
                cs.append(Case('cmp-%s%s' % (ta, tb), body, params={'types': (ta, tb), 'ops': OPS},
                               timeout_s=900))
    return cs
