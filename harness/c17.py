"""C17 -- Tokenising and listing are consistent (keywords with symbolic capitalisation; integer,
hex, octal, line-number and jump-number literals with symbolic digits).

Real code: Tokeniser.tokenise_line (with _tokenise_word, _tokenise_number, _tokenise_jump_number,
_tokenise_line_number, PlainTextStream.read_line_number, CodeStream.read_number),
Lister.detokenise_line (with _detokenise_keyword_into, _detokenise_number),
tokens.TokenKeywordDict, Values.from_repr / Integer.from_hex / from_oct / to_token* / to_str.
"""
from symx.runner import Case
from .common import *

ORACLE = ('the tokenised line is the line header, then the bytes the token table prescribes for the keyword '
          '(":"+token for ELSE, token+"+" for WHILE, ":"+REM+quote-token for the apostrophe), whatever the '
          'capitalisation; number literals become the token class of their value (constant 0..9, byte 10..255 -- the one-byte token for 10 is not written, as in GW-BASIC --, integer, '
          'hex, octal, unsigned line number) holding exactly the value of the digit string; listing gives back '
          'the upper-case keyword / the same digits, and that text tokenises to the identical bytes')
BOUNDS = {'keywords': 'every keyword of the dialect table (advanced 182, pcjr/tandy 184), alone on a numbered line, '
                      'followed by " X" and run together with "X"; every letter independently upper or lower case (symbolic case bits)',
          'numbers': 'decimal literals of 1..5 symbolic digits without leading zero and value <= 32767 after "A="; '
                     'five-digit literals 32768..99999 (single-precision token holding exactly that value); ELSE, EQV and nine other keywords after a digit with and without a blank; &H + 1..4 symbolic hex digits of either case; &O + 1..6 octal digits <= 177777; '
                     'jump numbers 0..65529 after GOTO/GOSUB/THEN/RESTORE and line numbers 1..65529 of 1..5 digits',
          'outside': 'single and double literals (decimal conversion is C07/C08, not encodable), statements '
                     'from a grammar, spacing rules between adjacent tokens beyond the two templates, strings, '
                     'comments and DATA contents, GO TO / GO SUB spellings'}
ASSUMPTIONS = ['z3 decides the formulas', 'symx models validated per path']

HEADER = b'\x00\xc0\xde'
# Integer.from_str tests `set(valstr) - set(DIGITS)` for emptiness: one membership formula, no fork per digit
EG = {'basic.values.numbers': {'set': seqs.sx_lazyset}}


def _mk(h, syntax):
    tk = h.P.basic.base.tokens._module()
    T = h.P.basic.converter.tokeniser._module()
    L = h.P.basic.converter.lister._module()
    vals = mk_values(h)
    kw = tk.TokenKeywordDict(syntax)
    return tk, T.Tokeniser(vals, kw), L.Lister(vals, kw), kw


def _tokenise(tok, line):
    outs = tok.tokenise_line(line)
    return outs.read()


def _list(h, lis, tokenised):
    cs = h.P.basic.base.codestream._module()
    ins = cs.TokenisedStream()
    ins.write(tokenised + b'\0')
    # the lister starts after the NUL that opens the line (as Program.list_lines does)
    ins.seek(1)
    num, text, _ = lis.detokenise_line(ins)
    return num, text


def _cased(h, word, tag):
    """word with each letter's case chosen by a symbolic bit"""
    out = []
    for i, c in enumerate(word):
        if 65 <= c <= 90:
            out.append(c + 32 * h.int('%s%d' % (tag, i), 0, 1))
        else:
            out.append(c)
    return out


def _sym_bytes(h, items):
    if h.symbolic:
        return seqs.SBytes(items)
    return bytes(items)


def _expected_keyword(tk, kw, word):
    token = kw.to_token[word]
    if word == b'ELSE':
        return b':' + token
    if word == b'WHILE':
        return token + kw.to_token[b'+']
    if word == b"'":
        return b':' + kw.to_token[b'REM'] + token
    return token


def body_keyword(h):
    syntax = h.params['syntax']
    tk, tok, lis, kw = _mk(h, syntax)
    words = sorted(kw.to_token)
    # the table is one-to-one in both directions
    h.require('table-bijective', len(set(kw.to_token.values())) == len(words) == len(kw.to_keyword)
              and all(kw.to_keyword[kw.to_token[w]] == w for w in words))
    word = h.choice('k', words)
    suffix = h.choice('sfx', [b'', b' X', b'X'])
    line = _sym_bytes(h, list(b'10 ') + _cased(h, word, 'c') + list(suffix))
    got = _tokenise(tok, line)
    if suffix == b'X' and word[:1].isalpha() and word not in (b'FN', b'USR', b'SPC(', b'TAB('):
        # a keyword that runs on into a name character is (part of) a variable name, stored in upper case
        want = HEADER + bytes([10, 0]) + word + suffix
        h.require('keyword-inside-a-name-is-not-tokenised', s_and(len(got) == len(want), bytes_eq(got, want)), got)
        return [list(got)]
    want = HEADER + bytes([10, 0]) + _expected_keyword(tk, kw, word) + suffix
    h.require('keyword-tokenised-whatever-the-case', s_and(len(got) == len(want), bytes_eq(got, want)), got)
    # listing the prescribed bytes gives the upper-case keyword back, and that re-enters identically
    num, text = _list(h, lis, want)
    h.require('listed-keyword', s_and(num == 10, bytes_eq(text, b'10 ' + word + suffix)), text)
    again = _tokenise(tok, bytes(text))
    h.require('relisted-text-tokenises-identically', bytes_eq(again, want), again)
    return [list(got), list(text)]


def _digits(h, n, tag, base=10, first_nonzero=True):
    ds = [h.int('%s%d' % (tag, i), 0, base - 1) for i in range(n)]
    if first_nonzero and n > 1:
        h.assume(ds[0] != 0)
    v = 0
    for d in ds:
        v = v * base + d
    return ds, v


def _le16(v):
    return [v % 256, v // 256]


def body_decimal(h):
    tk, tok, lis, kw = _mk(h, 'advanced')
    n = h.params['n']
    ds, v = _digits(h, n, 'd')
    h.assume(v <= 32767)
    text = [48 + d for d in ds]
    line = _sym_bytes(h, list(b'10 A=') + text)
    got = _tokenise(tok, line)
    eq = kw.to_token[b'=']
    head = list(HEADER) + [10, 0] + list(b'A') + list(eq)
    want = ite_list(v <= 9, [0x11 + v], ite_list(v <= 255, [0x0f, v], [0x1c] + _le16(v)))
    lens = ite(v <= 9, 1, ite(v <= 255, 2, 3))
    h.require('token-class-and-value', s_and(len(got) == len(head) + lens, bytes_eq(list(got)[:len(head)], head),
                                             *[list(got)[len(head) + i] == w for i, w in enumerate(want)
                                               if len(head) + i < len(got)]), got)
    num, listed = _list(h, lis, got)
    h.require('listed-digits', s_and(len(listed) == 5 + n, bytes_eq(listed, list(b'10 A=') + text)), listed)
    return [list(got), list(listed)]


def ite_list(c, a, b):
    """elementwise choice between two lists, padded to the longer with the other's elements"""
    n = max(len(a), len(b))
    out = []
    for i in range(n):
        x = a[i] if i < len(a) else b[i]
        y = b[i] if i < len(b) else a[i]
        out.append(ite(c, x, y))
    return out


HEXU, HEXL = b'0123456789ABCDEF', b'0123456789abcdef'


def body_hex(h):
    tk, tok, lis, kw = _mk(h, 'advanced')
    n = h.params['n']
    ds, v = _digits(h, n, 'x', 16)
    text = []
    for i, d in enumerate(ds):
        lower = h.int('l%d' % i, 0, 1)
        text.append(ite(d < 10, 48 + d, 55 + d + 32 * lower))
    pre = h.choice('pre', [b'&H', b'&h'])
    line = _sym_bytes(h, list(b'10 A=') + list(pre) + text)
    got = _tokenise(tok, line)
    head = list(HEADER) + [10, 0] + list(b'A') + list(kw.to_token[b'='])
    want = head + [0x0c] + _le16(v)
    h.require('hex-token', s_and(len(got) == len(want), bytes_eq(got, want)), got)
    num, listed = _list(h, lis, got)
    canon = [ite(d < 10, 48 + d, 55 + d) for d in ds]
    h.require('listed-hex', s_and(len(listed) == 7 + n, bytes_eq(listed, list(b'10 A=&H') + canon)), listed)
    return [list(got), list(listed)]


def body_oct(h):
    tk, tok, lis, kw = _mk(h, 'advanced')
    n = h.params['n']
    ds, v = _digits(h, n, 'o', 8)
    h.assume(v <= 65535)
    text = [48 + d for d in ds]
    pre = h.choice('pre', [b'&O', b'&o', b'&'])
    line = _sym_bytes(h, list(b'10 A=') + list(pre) + text)
    got = _tokenise(tok, line)
    head = list(HEADER) + [10, 0] + list(b'A') + list(kw.to_token[b'='])
    want = head + [0x0b] + _le16(v)
    h.require('oct-token', s_and(len(got) == len(want), bytes_eq(got, want)), got)
    num, listed = _list(h, lis, got)
    h.require('listed-oct', s_and(len(listed) == 7 + n, bytes_eq(listed, list(b'10 A=&O') + text)), listed)
    return [list(got), list(listed)]


def body_jump(h):
    tk, tok, lis, kw = _mk(h, 'advanced')
    n = h.params['n']
    ds, v = _digits(h, n, 'j')
    h.assume(v <= 65529)
    text = [48 + d for d in ds]
    word = h.choice('w', [b'GOTO', b'GOSUB', b'THEN', b'RESTORE'])
    line = _sym_bytes(h, list(b'10 ' + word + b' ') + text)
    got = _tokenise(tok, line)
    want = list(HEADER) + [10, 0] + list(kw.to_token[word]) + [32, 0x0e] + _le16(v)
    h.require('jump-token', s_and(len(got) == len(want), bytes_eq(got, want)), got)
    num, listed = _list(h, lis, got)
    exp = list(b'10 ' + word + b' ') + text
    h.require('listed-jump', s_and(len(listed) == len(exp), bytes_eq(listed, exp)), listed)
    return [list(got), list(listed)]


def body_linenum(h):
    tk, tok, lis, kw = _mk(h, 'advanced')
    n = h.params['n']
    ds, v = _digits(h, n, 'n')
    # line number 0 keeps the blank that follows it (GW-BASIC quirk mirrored by the lister): excluded
    h.assume(s_and(v <= 65529, v != 0))
    text = [48 + d for d in ds]
    line = _sym_bytes(h, text + list(b' CLS'))
    got = _tokenise(tok, line)
    want = list(HEADER) + _le16(v) + list(kw.to_token[b'CLS'])
    h.require('line-number-header', s_and(len(got) == len(want), bytes_eq(got, want)), got)
    num, listed = _list(h, lis, got)
    exp = text + list(b' CLS')
    h.require('listed-line-number', s_and(num == v, len(listed) == len(exp), bytes_eq(listed, exp)), listed)
    return [list(got), list(listed)]


AFTER_NUMBER = [b'ELSE', b'EQV', b'THEN', b'AND', b'OR', b'XOR', b'IMP', b'MOD', b'TO', b'STEP', b'GOTO']


def body_number_then_keyword(h):
    """a keyword that follows a number (ELSE and EQV must not be taken for an exponent)"""
    tk, tok, lis, kw = _mk(h, 'advanced')
    word = h.choice('k', AFTER_NUMBER)
    gap = h.choice('gap', [b' ', b''])
    d = h.int('d', 0, 9)
    line = _sym_bytes(h, list(b'10 ?') + [48 + d] + list(gap) + _cased(h, word, 'c'))
    got = _tokenise(tok, line)
    want = list(HEADER) + [10, 0] + list(kw.to_token[b'PRINT']) + [0x11 + d] + list(gap) + list(_expected_keyword(tk, kw, word))
    h.require('keyword-after-number-whatever-the-case', s_and(len(got) == len(want), bytes_eq(got, want)), got)
    return [list(got)]


def body_decimal_single(h):
    """five-digit literals above 32767 are single-precision tokens holding exactly that value"""
    tk, tok, lis, kw = _mk(h, 'advanced')
    ds, v = _digits(h, 5, 'd')
    h.assume(v >= 32768)
    text = [48 + d for d in ds]
    line = _sym_bytes(h, list(b'10 A=') + text)
    got = list(_tokenise(tok, line))
    head = list(HEADER) + [10, 0] + list(b'A') + list(kw.to_token[b'='])
    h.require('single-token', s_and(len(got) == len(head) + 5, bytes_eq(got[:len(head)], head), got[len(head)] == 0x1d), got)
    if len(got) == len(head) + 5:
        r = FVal.of_raw(got[len(head) + 1:])
        w = FVal.of_int(v, bits=17)
        h.require('single-holds-the-value', f_eq(r, w), got[len(head) + 1:])
    return [got]


def cases(tier):
    cs = []
    for syntax in ('advanced', 'pcjr', 'tandy'):
        cs.append(Case('keywords-%s' % syntax, body_keyword, params={'syntax': syntax}, timeout_s=1800,
                       max_paths=2000, max_fanout=400))
    for n in range(1, 6):
        cs.append(Case('decimal-%d' % n, body_decimal, params={'n': n}, timeout_s=900, extra_globals=EG))
        cs.append(Case('jump-%d' % n, body_jump, params={'n': n}, timeout_s=900))
        cs.append(Case('linenum-%d' % n, body_linenum, params={'n': n}, timeout_s=900))
    cs.append(Case('number-then-keyword', body_number_then_keyword, timeout_s=900, max_fanout=100))
    cs.append(Case('decimal-5-single', body_decimal_single, timeout_s=1800, extra_globals=EG))
    for n in range(1, 5):
        cs.append(Case('hex-%d' % n, body_hex, params={'n': n}, timeout_s=900))
    for n in range(1, 7):
        cs.append(Case('oct-%d' % n, body_oct, params={'n': n}, timeout_s=900))
    return cs
