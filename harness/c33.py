"""C33 -- DRAW moves the pen exactly as its commands specify.

Real code: Graphics._draw / _draw_step, MLParser.parse_number / _parse_literal, CodeStream.
"""
from symx.runner import Case
from .common import *

ORACLE = ('pen model: U/D/L/R/E/F/G/H n moves by n * direction vector, scaled as trunc(scale * n / 4) '
          'per axis (toward zero); M x,y moves to (x,y), M +-x,y relative; B = no line, N = return to '
          'start; a line is handed to _draw_line exactly when the step is not blank')
BOUNDS = {'_draw_step': 'all start points -32768..32767, steps -99999..99999 per axis, scale 1..255, '
                        'angle 0, both flags', 'command strings': 'templates [B][N] <letter> [sign] '
          '<1-3 digits> with the letter any byte, and free byte strings of length <= 3 (quick) / 4 '
          '(thorough) over all 256 byte values', 'M commands': 'M x,y / M+x,y / M-x,y with two- and one-digit symbolic numbers, optional sign on y, '
          'prefixes B and N', 'variables': 'R/U/M with [+-]=A%; / =B%; operands in the whole interpreter, A%, B% in -300..300', 'outside': 'rotation (A, TA: Python floats and trig), X '
          'substrings, VARPTR$ operands, P (paint), WINDOW'}
ASSUMPTIONS = ['z3 decides the formulas', 'symx models validated per path',
               'int / 4.0 is modelled as an exact dyadic number (exact in IEEE doubles below 2^53)',
               '_draw_line is replaced by a recorder on the Graphics instance']


class Mode(object):
    is_text_mode = False
    pixel_height = 200
    pixel_width = 320


def _gfx(h):
    G = h.P.basic.display.graphics
    g = object.__new__(G.Graphics)
    g._mode = Mode()
    g._screen_aspect = (4, 3)
    g._draw_scale = 4
    g._draw_angle = 0
    g._last_attr = 7
    g._window_bounds = None
    g._memory = None
    g._values = None
    g.lines = []
    g._draw_line = lambda x0, y0, x1, y1, attr, pattern=0xffff: g.lines.append([x0, y0, x1, y1, attr])
    return G, g


def _scaled(scale, n):
    t = scale * n
    a = ite(t < 0, -t, t)
    q = a // 4
    return ite(t < 0, -q, q)


def body_step(h):
    G, g = _gfx(h)
    x0, y0 = h.int('x0', -32768, 32767), h.int('y0', -32768, 32767)
    sx, sy = h.int('sx', -99999, 99999), h.int('sy', -99999, 99999)
    scale = h.int('scale', 1, 255)
    plot, goback = bool(h.bool('plot')), bool(h.bool('goback'))
    g._draw_scale = scale
    g._draw_current = (x0, y0)
    g._draw_step(x0, y0, sx, sy, plot, goback)
    x1, y1 = x0 + _scaled(scale, sx), y0 + _scaled(scale, sy)
    cur = g._draw_current
    if goback:
        h.require('returns-to-start', s_and(cur[0] == x0, cur[1] == y0))
    else:
        h.require('end-position', s_and(cur[0] == x1, cur[1] == y1))
    if plot:
        h.require('one-line-drawn', len(g.lines) == 1)
        l = g.lines[0]
        h.require('line-from-start-to-end', s_and(l[0] == x0, l[1] == y0, l[2] == x1, l[3] == y1, l[4] == 7))
    else:
        h.require('blank-move-draws-nothing', len(g.lines) == 0)
    return [list(cur), g.lines]


DIRS = {85: (0, -1), 68: (0, 1), 76: (-1, 0), 82: (1, 0), 69: (1, -1), 70: (1, 1), 71: (-1, 1), 72: (-1, -1)}


def _bytes(h, items):
    from symx import seqs
    return seqs.mk_bytes(items) if h.symbolic else bytes(items)


def body_move(h):
    """[B][N] letter [sign] digits"""
    G, g = _gfx(h)
    nd = h.params['digits']
    pre = h.params['prefix']
    sign = h.params['sign']
    letter = h.byte('letter')
    ds = [h.int('d%d' % i, 48, 57) for i in range(nd)]
    scale = h.choice('scale', [1, 3, 4, 255])     # symbolic scale is covered by the step kernel
    g._draw_scale = scale
    x0, y0 = h.int('x0', -1000, 1000), h.int('y0', -1000, 1000)
    g._draw_current = (x0, y0)
    g._last_point = (x0, y0)
    text = list(pre) + [letter] + ([sign] if sign else []) + ds
    res = h.call(g._draw, _bytes(h, text))
    up = ite(s_and(letter >= 97, letter <= 122), letter - 32, letter)
    n = 0
    for d in ds:
        n = n * 10 + (d - 48)
    if nd == 0:
        n = 1
    if sign == 45:
        n = -n
    blank = 66 in pre
    back = 78 in pre
    is_move = s_or(*[up == k for k in DIRS])
    if res[0] == 'ok' and not bool(is_move):
        # colour / scale / separators / prefixes: accepted, but the pen must not move
        cur = g._draw_current
        h.require('non-movement-command-keeps-pen', s_and(cur[0] == x0, cur[1] == y0))
        h.require('non-movement-command-draws-nothing', len(g.lines) == 0)
        return ['ok', list(cur), g.lines]
    if res[0] == 'ok':
        dx = 0
        dy = 0
        for k, (vx, vy) in DIRS.items():
            dx = ite(up == k, vx, dx)
            dy = ite(up == k, vy, dy)
        x1, y1 = x0 + _scaled(scale, n * dx), y0 + _scaled(scale, n * dy)
        cur = g._draw_current
        if back:
            h.require('n-returns-to-start', s_and(cur[0] == x0, cur[1] == y0))
        else:
            h.require('end-position', s_and(cur[0] == x1, cur[1] == y1))
        if blank:
            h.require('b-draws-nothing', len(g.lines) == 0)
        else:
            h.require('line-drawn', len(g.lines) == 1 and s_and(
                g.lines[0][0] == x0, g.lines[0][1] == y0, g.lines[0][2] == x1, g.lines[0][3] == y1))
        h.require('point0-follows-pen', s_and(g._last_point[0] == cur[0], g._last_point[1] == cur[1]))
        return ['ok', list(cur), g.lines]
    h.require('only-basic-errors', res[0] == 'err')
    # letters that take a number but are no movement (C, S, A, M, P, T, X...) may fail or not;
    # a movement letter with a well-formed number must be accepted
    h.require('movement-accepted', s_not(is_move))
    return [res[0], res[1]]


def body_m(h):
    """M x,y (absolute) and M+-x,y (relative) with symbolic one/two digit numbers"""
    G, g = _gfx(h)
    rel = h.params['rel']            # 0 absolute, 43 '+', 45 '-'
    pre = h.params['prefix']
    scale = h.choice('scale', [1, 4, 9])
    g._draw_scale = scale
    x0, y0 = h.int('x0', -1000, 1000), h.int('y0', -1000, 1000)
    g._draw_current = (x0, y0)
    g._last_point = (x0, y0)
    xd = [h.int('xd%d' % i, 48, 57) for i in range(h.params['nx'])]
    yd = [h.int('yd%d' % i, 48, 57) for i in range(h.params['ny'])]
    ysign = h.params['ysign']
    text = list(pre) + [77] + ([rel] if rel else []) + xd + [44] + ([ysign] if ysign else []) + yd
    follow = h.params.get('follow', False)
    if follow:
        # a second, plain move after the M command: the B / N prefixes must not leak into it
        text += [82, 53]          # R5
    res = h.call(g._draw, _bytes(h, text))
    x = 0
    for d in xd:
        x = x * 10 + (d - 48)
    y = 0
    for d in yd:
        y = y * 10 + (d - 48)
    if rel == 45:
        x = -x
    if ysign == 45:
        y = -y
    blank, back = 66 in pre, 78 in pre
    if res[0] != 'ok':
        h.require('m-accepted', False)
        return [res[0], res[1]]
    if rel:
        x1, y1 = x0 + _scaled(scale, x), y0 + _scaled(scale, y)
    else:
        x1, y1 = x, y
    cur = g._draw_current
    if follow:
        sx, sy = (x0, y0) if back else (x1, y1)
        ex = sx + _scaled(scale, 5)
        h.require('second-move-from-pen', s_and(cur[0] == ex, cur[1] == sy))
        nl = 1 if blank else 2
        h.require('second-move-drawn', len(g.lines) == nl and s_and(
            g.lines[-1][0] == sx, g.lines[-1][1] == sy, g.lines[-1][2] == ex, g.lines[-1][3] == sy))
        return ['ok', list(cur), g.lines]
    if back:
        h.require('n-returns-to-start', s_and(cur[0] == x0, cur[1] == y0))
    else:
        h.require('end-position', s_and(cur[0] == x1, cur[1] == y1))
    if blank:
        h.require('b-draws-nothing', len(g.lines) == 0)
    else:
        h.require('line-drawn', len(g.lines) == 1 and s_and(
            g.lines[0][0] == x0, g.lines[0][1] == y0, g.lines[0][2] == x1, g.lines[0][3] == y1))
    return ['ok', list(cur), g.lines]


def body_free(h):
    """any byte string: nothing but a BASIC error (Illegal function call / Overflow) escapes"""
    G, g = _gfx(h)
    L = h.params['len']
    g._draw_current = (100, 100)
    g._last_point = (100, 100)
    sb = h.bytes('g', L)
    items = list(sb)
    # keep clear of commands that need memory / variables / paint (outside the claim)
    for c in items:
        up = ite(s_and(c >= 97, c <= 122), c - 32, c)
        h.assume(s_and(up != 88, up != 61, up != 80, up != 65, up != 84))
    res = h.call(g._draw, sb)
    h.require('only-basic-errors', res[0] != 'exc')
    if res[0] == 'err':
        h.require('error-is-ifc-or-overflow', s_or(res[1] == IFC, res[1] == OVERFLOW))
    return [res[0], res[1] if res[0] != 'ok' else None, g.lines, list(g._draw_current)]


def body_session_variables(h):
    """=variable; operands with and without a sign, through the whole interpreter (pen read from Graphics._draw_current: POINT converts through Python floats)"""
    from . import session
    from .c19 import _geti
    impl = session.mk_impl(h)
    impl.execute(b'A%=0:B%=0:X1%=0:Y1%=0:X2%=0:Y2%=0:X3%=0:Y3%=0')
    impl.execute(b'SCREEN 1')
    a, b = h.int('a', -300, 300), h.int('b', -300, 300)
    from symx import seqs
    for n, v in ((b'A%', a), (b'B%', b)):
        items = s16_bytes(v)
        session.poke_int(h, impl, n, seqs.mk_bytes(items) if h.symbolic else bytes(items))
    sign1, sign2 = h.choice('s1', [b'', b'+', b'-']), h.choice('s2', [b'', b'+', b'-'])
    got = []
    impl.execute(b'PSET (160,100),0: DRAW "BR' + sign1 + b'=A%;"')
    got += list(impl.graphics._draw_current)
    impl.execute(b'DRAW "BU' + sign2 + b'=B%;"')
    got += list(impl.graphics._draw_current)
    impl.execute(b'DRAW "BM+=A%;,' + sign2 + b'=B%;"')
    got += list(impl.graphics._draw_current)
    h.require('no-error', impl.interpreter.error_num == 0, impl.interpreter.error_num)
    sa = -a if sign1 == b'-' else a
    sb = -b if sign2 == b'-' else b
    want = [160 + sa, 100, 160 + sa, 100 - sb, 160 + sa + a, 100 - sb + sb]
    h.require('pen-follows-signed-variable-operands', s_and(*[g == w for g, w in zip(got, want)]), got)
    return got


def cases(tier):
    cs = [Case('step', body_step), Case('session-variable-operands', body_session_variables, max_fanout=100, timeout_s=900)]
    for nd in (0, 1, 2, 3):
        for pre in ([], [66], [78], [66, 78]):
            for sign in (0, 43, 45):
                if nd == 0 and sign:
                    continue
                if tier != 'thorough' and (nd == 2 or (pre == [66, 78] and sign)):
                    continue
                cs.append(Case('move-%s%dd%s' % (''.join(chr(c) for c in pre), nd,
                                                 {0: '', 43: 'p', 45: 'm'}[sign]), body_move,
                               params={'digits': nd, 'prefix': pre, 'sign': sign}))
    for rel in (0, 43, 45):
        for pre in ([], [66], [78]):
            for ysign in (0, 45):
                if tier != 'thorough' and pre and ysign:
                    continue
                cs.append(Case('m-%s%s-y%s' % (''.join(chr(c) for c in pre), {0: 'abs', 43: 'plus', 45: 'minus'}[rel],
                                               'neg' if ysign else 'pos'), body_m,
                               params={'rel': rel, 'prefix': pre, 'ysign': ysign, 'nx': 2, 'ny': 1}))
                if not ysign:
                    cs.append(Case('m-%s%s-then-move' % (''.join(chr(c) for c in pre),
                                                         {0: 'abs', 43: 'plus', 45: 'minus'}[rel]), body_m,
                                   params={'rel': rel, 'prefix': pre, 'ysign': 0, 'nx': 1, 'ny': 1,
                                           'follow': True}))
    for L in range(0, (4 if tier == 'thorough' else 3) + 1):
        cs.append(Case('free-%d' % L, body_free, params={'len': L}, max_paths=400000, timeout_s=3000))
    return cs
