"""Session-level helpers: the whole real interpreter (Implementation) running a concrete program
template whose variable contents are symbolic."""
from .common import *


def mk_impl(h, **kw):
    I = h.P.basic.implementation._module()
    kw.setdefault('output_streams', None)
    kw.setdefault('input_streams', None)
    impl = I.Implementation(**kw)
    return impl


def run(h, impl, line):
    """execute a direct-mode line; returns None or the BASIC error code that was reported"""
    impl.execute(line)


def poke_int(h, impl, name, raw):
    """overwrite the 2 bytes of an existing integer scalar"""
    buf = impl.scalars._vars[name]
    buf[:] = raw


def peek_raw(impl, name):
    return list(impl.scalars._vars[name])


def last_error(impl):
    """error number of the last error reported by the interpreter (ERR), 0 if none"""
    return impl.interpreter.error_num if hasattr(impl.interpreter, 'error_num') else None
