"""C16 -- A protected program never discloses its text in direct mode (catalogue of direct-mode statements).

Real code: the whole interpreter with a stored program whose Program.protected flag is set (as LOAD of
a ,P file with hide_protected sets it): Memory.peek_ / poke_ / bsave_ / bload_, Program.store_line /
list_lines / edit / save / merge, Implementation.chain_ / _store_line, DataSegment protection flag.
"""
from symx.runner import Case
from .common import *
from . import session
from .c19 import _geti

ORACLE = ('every statement of the catalogue fails with Illegal function call, leaves the program, its protected '
          'flag and the result variable unchanged and puts none of the program\'s text on the screen; the '
          'protected program computes the same results as the unprotected one')
BOUNDS = {'memory access': 'DEF SEG=B%: R%=PEEK(A%), DEF SEG=B%: POKE A%,C%, BSAVE "CAS1:X",A%,B%, BLOAD "CAS1:X",A% '
                           'for every 16-bit A%, B%, C% (symbolic), also behind a colon and after a first '
                           'statement on the line',
          'program text': 'LIST / LLIST / EDIT / SAVE (ASCII and tokenised) / MERGE / CHAIN MERGE forms of the list '
                          'LISTING below; entering a program line whose number has 1..5 symbolic digits',
          'running': 'a three-line program with symbolic A%: protected and unprotected runs leave the same variables',
          'session': 'Implementation(hide_protected=True) with the flag set directly on a program entered line by '
                     'line (the ,P decryption is C15); no disk device (files go to CAS1:, which is not attached)',
          'outside': 'all other statements, strings and floats as arguments, statements executed by the program '
                     'itself (it may PEEK its own memory), SAVE ,P to a real device, error handlers'}
ASSUMPTIONS = ['z3 decides the formulas', 'symx models validated per path']

# (line 40 is a syntax error: running into it brings up the line editor, which must not show the line)
PROGRAM = [b'10 REM SECRETXYZ', b'20 X%=A% XOR 21845: S$="HIDDENQ"', b'30 Y%=LEN(S$)+(X% AND 255): Z%=Z%+1: END',
           b'40 Z%=Z% EQV EQV SYNSECRET']
MARKERS = [b'SECRETXYZ', b'HIDDENQ', b'XOR', b'21845', b'EQV', b'SYNSECRET']

IFCMSG, DEVMSG = b'Illegal function call', b'Device Unavailable'
# (statement, message that must appear).  SAVE and MERGE open their file first: with no cassette attached
# they stop at Device Unavailable, which discloses nothing either.
LISTING = [(b'LIST', IFCMSG), (b'LIST 10', IFCMSG), (b'LIST 10-20', IFCMSG), (b'LIST -20', IFCMSG),
           (b'LIST 20-', IFCMSG), (b'LIST .', IFCMSG), (b'LLIST', IFCMSG), (b'LLIST 10', IFCMSG),
           (b'LIST ,"SCRN:"', IFCMSG), (b'LIST 10,"LPT1:"', IFCMSG), (b'EDIT 10', IFCMSG), (b'EDIT 20', IFCMSG),
           (b'EDIT .', IFCMSG), (b'SAVE "CAS1:X",A', DEVMSG), (b'SAVE "CAS1:X"', DEVMSG), (b'MERGE "CAS1:X"', DEVMSG),
           (b'CHAIN MERGE "CAS1:X"', IFCMSG), (b'CHAIN MERGE "CAS1:X",10,ALL', IFCMSG), (b'A%=1: LIST', IFCMSG),
           (b'A%=1: EDIT 10', IFCMSG), (b'IF 1 THEN LIST', IFCMSG), (b"LIST ' x", IFCMSG),
           (b'FOR I=1 TO 1: LIST: NEXT', IFCMSG), (b'GOTO 40', IFCMSG)]


def _impl(h, protect=True):
    impl = session.mk_impl(h, hide_protected=True)
    for line in PROGRAM:
        impl.execute(line)
    impl.execute(b'A%=0:B%=0:C%=0:R%=12345:X%=0:Y%=0:Z%=0:S$=""')
    impl.execute(b'CLS: KEY OFF')
    code = bytes(impl.program.bytecode.getvalue())
    impl.program.protected = protect
    return impl, code


def _direct(h, impl, line):
    """one round of the interactive loop: execute the line, then the Ok / EDIT prompt"""
    res = h.call(impl.execute, line)
    if res[0] != 'ok':
        return res

    def prompt():
        with impl._handle_exceptions():
            impl._show_prompt()
    return h.call(prompt)


def _screen(impl):
    return b'\n'.join(b''.join(bytes(c) for c in row) for row in impl.text_screen.get_chars())


def _undisclosed(h, impl, code, label=''):
    scr = _screen(impl)
    h.require('nothing-of-the-program-on-screen' + label, not any(m in scr for m in MARKERS), scr[:200])
    h.require('program-unchanged-and-still-protected' + label,
              bytes(impl.program.bytecode.getvalue()) == code and impl.program.protected is True)


def body_memory(h):
    stmt = h.params['stmt']
    impl, code = _impl(h)
    raws = {}
    for n in (b'A%', b'B%', b'C%'):
        raws[n] = h.bytes(n[:1].decode().lower(), 2)
        session.poke_int(h, impl, n, raws[n])
    res = _direct(h, impl, stmt)
    h.require('no-host-exception', res[0] == 'ok', res)
    h.require('illegal-function-call', impl.interpreter.error_num == IFC, impl.interpreter.error_num)
    h.require('nothing-read', _geti(impl, b'R%') == 12345)
    _undisclosed(h, impl, code)
    return [impl.interpreter.error_num]


def body_listing(h):
    impl, code = _impl(h)
    stmt, msg = h.choice('stmt', LISTING)
    res = _direct(h, impl, stmt)
    h.require('no-host-exception', res[0] == 'ok', res)
    h.require('refused-with-the-expected-error', msg in _screen(impl), [stmt, _screen(impl)[:200]])
    _undisclosed(h, impl, code)
    return [impl.interpreter.error_num]


def body_enter_line(h):
    """a program line typed in direct mode (line number of n symbolic digits) is refused"""
    from symx import seqs
    impl, code = _impl(h)
    n = h.params['n']
    ds = [h.int('d%d' % i, 0, 9) for i in range(n)]
    text = [48 + d for d in ds] + list(b' PRINT 1')
    line = seqs.SBytes(text) if h.symbolic else bytes(text)
    res = _direct(h, impl, line)
    h.require('no-host-exception', res[0] == 'ok', res)
    v = 0
    for d in ds:
        v = v * 10 + d
    # (numbers above 65529 are not line numbers: the digits are then split and the rest is a syntax error)
    refused = IFCMSG in _screen(impl)
    h.require('refused', s_implies(v <= 65529, refused), _screen(impl)[:100])
    _undisclosed(h, impl, code)
    return [impl.interpreter.error_num]


def body_runs_the_same(h):
    a = h.bytes('a', 2)
    out = []
    for protect in (False, True):
        impl, code = _impl(h, protect)
        session.poke_int(h, impl, b'A%', a)
        _direct(h, impl, b'RUN')
        out.append([_geti(impl, b'X%'), _geti(impl, b'Y%'), _geti(impl, b'Z%'), impl.interpreter.error_num])
        if protect:
            _undisclosed(h, impl, code)
    h.require('same-results', s_and(*[x == y for x, y in zip(out[0], out[1])]), out)
    A = s16(a)
    return [out[1][3]]


MEMORY = {
    'peek': b'DEF SEG=B%: R%=PEEK(A%)',
    'peek-default-segment': b'R%=PEEK(A%)',
    'peek-after-colon': b'C%=1:R%=PEEK(A%)',
    'peek-in-expression': b'R%=1+(PEEK(A%) AND C%)',
    'peek-in-if': b'IF B%=B% THEN R%=PEEK(A%)',
    'poke': b'DEF SEG=B%: POKE A%,C%',
    'poke-flag': b'DEF SEG: POKE 1450,C% AND 255',
    'bsave': b'BSAVE "CAS1:X",A%,B%',
    'bload': b'BLOAD "CAS1:X",A%',
    'bload-segment': b'DEF SEG=B%: BLOAD "CAS1:X",A%',
    'bload-no-offset': b'DEF SEG=B%: BLOAD "CAS1:X"',
    'bsave-segment': b'DEF SEG=B%: BSAVE "CAS1:X",A%,C%',
}


def cases(tier):
    cs = [Case('memory-%s' % k, body_memory, params={'stmt': v}, timeout_s=900) for k, v in MEMORY.items()]
    cs.append(Case('listing', body_listing, timeout_s=900, max_fanout=100))
    for n in range(1, 6):
        cs.append(Case('enter-line-%d' % n, body_enter_line, params={'n': n}, timeout_s=900))
    cs.append(Case('runs-the-same', body_runs_the_same, timeout_s=900))
    return cs
