"""C41 -- Codepage conversion round-trips: the streaming double-byte converter conserves bytes.

Real code: Converter._process / _process_nobox / _process_case0..4 / _flush / _mark, Codepage
tables (lead, trail, box sets) built by the real Codepage.__init__ from the shipped .ucp files.
"""
from symx.runner import Case
from symx import lift
from .common import *

ORACLE = ('one inductive step: from any converter state of an allowed shape (buffer of 0..2 arbitrary '
          'bytes, box set -1/0/1, last byte), feeding one arbitrary byte must emit sequences whose '
          'concatenation followed by the new buffer equals the old buffer followed by the byte, and must '
          'lead to a state of an allowed shape; flush emits exactly the buffer.  By induction the '
          'emitted sequences of any string, converted at once or in pieces, concatenate to the input.')
BOUNDS = {'codepages': 'every shipped codepage with double-byte characters', 'state': 'all states of the '
          'shapes {bset=-1, |buf|<=2} and {bset in (0,1), |buf| in (0,2)} with arbitrary byte contents',
          'input': 'every byte value; with and without box protection; with preserved control bytes',
          'outside': 'the unicode <-> bytes tables (unicode strings and normalisation are not modelled by '
                     'the engine): first two sentences of the property'}
ASSUMPTIONS = ['z3 decides the formulas', 'symx models validated per path']


def dbcs_codepages():
    lift.install()
    data = lift.pristine('data')
    cpm = lift.pristine('basic.codepage')
    out = []
    for name in sorted(data.CODEPAGES):
        cp = cpm.Codepage(data.read_codepage(name))
        if cp.dbcs:
            out.append(name)
    return out


def _seq(h, items):
    from symx import seqs
    return seqs.mk_bytes(items) if h.symbolic else bytes(items)


def body(h):
    cpm = h.P.basic.codepage._module()
    data = h.P.data._module()
    cp = cpm.Codepage(data.read_codepage(h.params['cp']), box_protect=h.params['box'])
    preserve = (b'\r', b'\n', b'\x07') if h.params['preserve'] else ()
    conv = cpm.Converter(cp, preserve=preserve)
    shape = h.params['shape']             # (bset, buflen)
    bset, blen = shape
    buf = [h.byte('buf%d' % i) for i in range(blen)]
    conv._buf = _seq(h, buf)
    conv._bset = bset
    if bset >= 0 and blen == 0:
        conv._last = _seq(h, [h.byte('last')])
    c = h.byte('c')
    out = conv._process(_seq(h, [c]))
    flat = []
    for s in out:
        flat.extend(list(s))
    newbuf = list(conv._buf)
    h.require('bytes-conserved', bytes_eq(flat + newbuf, buf + [c]))
    h.require('no-empty-sequence', all(len(s) > 0 for s in out))
    nb, nl = conv._bset, len(newbuf)
    if h.params['box']:
        h.require('state-shape-preserved', (nb == -1 and nl <= 2) or (nb in (0, 1) and nl in (0, 2)))
    else:
        h.require('state-shape-preserved', nl <= 1)
    # flushing afterwards emits exactly the buffer
    fl = conv._flush()
    rest = []
    for s in fl:
        rest.extend(list(s))
    h.require('flush-emits-buffer', bytes_eq(rest, newbuf) and len(conv._buf) == 0)
    return [[list(s) for s in out], newbuf]


def cases(tier):
    cs = []
    for name in dbcs_codepages():
        for box in (True, False):
            shapes = [(-1, 0), (-1, 1), (-1, 2), (0, 2), (1, 2), (0, 0), (1, 0)] if box else \
                [(-1, 0), (-1, 1)]
            for shape in shapes:
                for pres in (False, True):
                    cs.append(Case('%s-%s-b%d-n%d%s' % (name, 'box' if box else 'nobox', shape[0],
                                                        shape[1], '-ctl' if pres else ''),
                                   body, params={'cp': name, 'box': box, 'shape': shape, 'preserve': pres}))
    return cs
