"""C12 -- Array subscripts address distinct elements within declared bounds.

Real code: Arrays.index / flat_length / check_dim / allocate / view_buffer / set / get /
option_base_ / erase_ / dim_ / clear_base.
"""
from symx.runner import Case
from .common import *

ORACLE = ('row-major mixed-radix numbering: distinct in-bounds tuples have distinct flat indices in '
          '[0, product of extents); element byte ranges = [idx*size, (idx+1)*size); error class by '
          'direct comparison of each subscript with the bounds')
BOUNDS = {'index arithmetic': '1..4 dimensions, every bound 0..32767, OPTION BASE 0/1, any two '
                              'subscript tuples (Int back end, non-linear)',
          'buffers': 'element access through real buffers for all shapes with bounds <= 2 (1..3 '
                     'dimensions), every type, symbolic subscripts in -3..4 and symbolic element bytes',
          'histories': 'DIM / implicit DIM / ERASE / OPTION BASE sequences of length <= 4 with symbolic '
                       'bounds 0..3',
          'outside': 'memory-limit accounting (check_free is a stub that never fails)'}
ASSUMPTIONS = ['z3/cvc5 decide the (non-linear integer) formulas', 'symx models validated per path']


class StubSeg(object):
    """What Arrays needs from DataSegment."""

    class _Strings(object):
        def fix_temporaries(self):
            pass

    def __init__(self):
        self.strings = StubSeg._Strings()
        self.freed = []

    def complete_name(self, name):
        return name

    def check_free(self, size, err):
        self.freed.append(size)

    def var_current(self):
        return 4000


def _arrays(h):
    vals = mk_values(h)
    A = h.P.basic.memory.arrays
    return vals, A.Arrays(StubSeg(), vals)


def body_index(h):
    n = h.params['n']
    vals, arr = _arrays(h)
    base = h.int('base', 0, 1)
    arr._base = base
    top = h.params.get('top', 32767)
    dims = [h.int('d%d' % k, 0, top) for k in range(n)]
    i = [h.int('i%d' % k, 0, top) for k in range(n)]
    j = [h.int('j%d' % k, 0, top) for k in range(n)]
    for k in range(n):
        h.assume(s_and(dims[k] >= base, i[k] >= base, i[k] <= dims[k], j[k] >= base, j[k] <= dims[k]))
    fi = arr.index(i, dims)
    fj = arr.index(j, dims)
    fl = arr.flat_length(dims)
    h.require('in-range', s_and(fi >= 0, fi < fl))
    same = s_and(*[x == y for x, y in zip(i, j)])
    if n < 4:
        h.require('injective', s_implies(fi == fj, same))
    else:
        # Four dimensions: the direct query (non-linear, 12 unknowns) was decided only when the incremental
        # solver happened to carry the right lemmas (7 s alone, unknown after 30 min inside a loaded thorough
        # run).  It is decided as three queries instead: (a) the real 4-D index is the real 3-D index of the
        # first three subscripts plus area3 * last subscript; (b) the 3-D index lies in [0, area3) and is
        # injective (case index-3d, same code); (c) for all x, y in [0, A): x + A*u = y + A*v implies
        # x = y and u = v.  (a)+(b)+(c) give injectivity of the 4-D index.
        f3i, f3j = arr.index(i[:3], dims[:3]), arr.index(j[:3], dims[:3])
        area3 = arr.flat_length(dims[:3])
        h.require('4d-index-decomposes', s_and(fi == f3i + area3 * (i[3] - base), fj == f3j + area3 * (j[3] - base)))
        h.require('3d-part-in-range', s_and(f3i >= 0, f3i < area3, f3j >= 0, f3j < area3))
        A = h.int('lemmaA', 1, 2 ** 46)
        x, y = h.int('lemmax', 0, 2 ** 46), h.int('lemmay', 0, 2 ** 46)
        u, v = h.int('lemmau', 0, 32767), h.int('lemmav', 0, 32767)
        h.require('mixed-radix-lemma', s_implies(s_and(x < A, y < A, x + A * u == y + A * v), s_and(x == y, u == v)))
    # the number of elements is the product of the extents
    prod = 1
    for k in range(n):
        prod = prod * (dims[k] + 1 - base)
    h.require('flat-length-is-product', fl == prod)
    return [fi, fj, fl]


def body_check_dim(h):
    n = h.params['n']            # declared dimensions
    k = h.params['k']            # subscripts given
    vals, arr = _arrays(h)
    base = h.int('base', 0, 1)
    arr._base = base
    dims = [h.int('d%d' % q, 0, 32767) for q in range(n)]
    for q in range(n):
        h.assume(dims[q] >= base)
    idx = [h.int('i%d' % q, -40000, 40000) for q in range(k)]
    name = b'A!'
    arr._dims[name] = dims
    marker = bytearray(b'untouched')
    arr._buffers[name] = marker
    res = h.call(arr.check_dim, name, idx)
    anyneg = s_or(*[x < 0 for x in idx])
    anyout = s_or(*[s_and(x >= 0, s_or(x < base, x > d)) for x, d in zip(idx, dims)])
    allin = s_and(*[s_and(x >= base, x <= d) for x, d in zip(idx, dims)])
    if res[0] == 'ok':
        h.require('accepted-only-in-bounds', s_and(n == k, allin))
        h.require('returns-buffer', res[1][1] is marker)
        return ['ok']
    if res[0] != 'err':
        h.require('no-foreign-exception', False)
        return [res[0], res[1]]
    h.require('error-justified', s_or(n != k, s_not(allin)))
    h.require('error-code', s_or(s_and(res[1] == IFC, anyneg, n == k),
                                 s_and(res[1] == SUBSCRIPT, s_or(n != k, anyout))))
    h.require('buffer-untouched', bytes(marker) == b'untouched')
    return [res[0], res[1]]


SIGILS = {b'%': 2, b'!': 4, b'#': 8, b'$': 3}


def body_elements(h):
    """set() then get() on a real small array: exactly the addressed element changes."""
    shape = h.params['shape']
    sigil = h.params['sigil']
    size = SIGILS[sigil]
    vals, arr = _arrays(h)
    base = h.int('base', 0, 1)
    base = h.concretize(base)
    if base:
        arr.option_base_(iter([1]))
    if any(d < base for d in shape):
        h.assume(False)
    name = b'A' + sigil
    arr.allocate(name, list(shape))
    buf = arr._buffers[name]
    total = 1
    for d in shape:
        total *= d + 1 - base
    h.require('buffer-size', len(buf) == total * size)
    # fill the array with symbolic content
    content = h.bytes('c', total * size)
    buf[:] = content
    idx = [h.int('i%d' % q, -3, 4) for q in range(len(shape))]
    val = h.bytes('v', size)
    allin = s_and(*[s_and(x >= base, x <= d) for x, d in zip(idx, shape)])
    view = h.call(arr.view_buffer, name, idx)
    if view[0] != 'ok':
        h.require('error-only-out-of-bounds', s_not(allin))
        h.require('error-code', s_or(res_is(view, IFC), res_is(view, SUBSCRIPT)))
        h.require('nothing-changed', bytes_eq(list(buf), list(content)))
        return [view[0], view[1]]
    h.require('accepted-only-in-bounds', allin)
    view[1][:] = val
    # reference position
    flat, area = 0, 1
    for x, d in zip(idx, shape):
        flat = flat + area * (x - base)
        area = area * (d + 1 - base)
    after = list(buf)
    conds = []
    for p in range(total * size):
        e, o = divmod(p, size)
        conds.append(after[p] == ite(flat == e, val[o], content[p]))
    h.require('only-addressed-element-changes', s_and(*conds))
    back = h.call(arr.view_buffer, name, idx)
    h.require('read-back', back[0] == 'ok' and bytes_eq(list(back[1]), list(val)))
    return [list(buf)]


def res_is(res, code):
    return res[0] == 'err' and res[1] == code


def body_history(h):
    """implicit DIM, duplicate DIM, ERASE + DIM, OPTION BASE conflicts"""
    which = h.params['which']
    vals, arr = _arrays(h)
    name = b'A!'
    obs = []
    if which == 'implicit':
        n = h.params['n']
        ob = h.int('optbase', 0, 2)          # 2: unset
        ob = h.concretize(ob)
        if ob < 2:
            arr.option_base_(iter([ob]))
        base = 0 if ob == 2 else ob
        lo, hi = h.params.get('range', (-2, 12))
        idx = [h.int('i%d' % q, lo, hi) for q in range(n)]
        res = h.call(arr.view_buffer, name, idx)
        anyneg = s_or(*[x < 0 for x in idx])
        allin = s_and(*[s_and(x >= base, x <= 10) for x in idx])
        h.require('dimensioned-to-10', arr._dims.get(name) == [10] * n)
        h.require('buffer-size', len(arr._buffers[name]) == 4 * (11 - base) ** n)
        if res[0] == 'ok':
            h.require('accepted-only-in-bounds', allin)
        else:
            h.require('error', s_and(s_not(allin), s_or(s_and(res_is(res, IFC), anyneg),
                                                       res_is(res, SUBSCRIPT))))
        # redimensioning now fails
        r2 = h.call(arr.dim_, iter([(name, [5] * n)]))
        h.require('redim-duplicate-definition', res_is(r2, DUPDEF))
        # erase, then it can be dimensioned again
        r3 = h.call(arr.erase_, iter([name]))
        r4 = h.call(arr.dim_, iter([(name, [5] * n)]))
        h.require('erase-then-dim', r3[0] == 'ok' and r4[0] == 'ok' and arr._dims.get(name) == [5] * n)
        # an explicit OPTION BASE survives ERASE: the lower bound still applies to the new array
        if ob < 2:
            r6 = h.call(arr.check_dim, name, [ob] * n)
            h.require('lower-bound-accepted-after-erase', r6[0] == 'ok')
            if ob == 1:
                r7 = h.call(arr.check_dim, name, [0] * n)
                h.require('explicit-base-survives-erase', res_is(r7, SUBSCRIPT))
            r8 = h.call(arr.option_base_, iter([1 - ob]))
            h.require('other-base-still-refused-after-erase', res_is(r8, DUPDEF))
        # erasing an array that does not exist
        r5 = h.call(arr.erase_, iter([b'B!']))
        h.require('erase-missing-ifc', res_is(r5, IFC))
        obs = [res[0], r2[0], r3[0], r4[0]]
    elif which == 'dim':
        n = h.params['n']
        ob = h.concretize(h.int('optbase', 0, 2))
        if ob < 2:
            arr.option_base_(iter([ob]))
        base = 0 if ob == 2 else ob
        dims = [h.concretize(h.int('d%d' % q, -1, 3), 8) for q in range(n)]
        res = h.call(arr.dim_, iter([(name, dims)]))
        anyneg = any(d < 0 for d in dims)
        below = any(d < base for d in dims)
        if anyneg:
            h.require('negative-bound-ifc', res_is(res, IFC))
        elif below:
            h.require('bound-below-base', res_is(res, SUBSCRIPT))
        else:
            total = 1
            for d in dims:
                total *= d + 1 - base
            h.require('allocated', res[0] == 'ok' and len(arr._buffers[name]) == 4 * total and
                      arr._dims[name] == dims)
            h.require('zero-initialised', bytes(arr._buffers[name]) == bytes(4 * total))
            # OPTION BASE after the base is fixed: same value fine, other value duplicate definition
            for b2 in (0, 1):
                r = h.call(arr.option_base_, iter([b2]))
                if b2 == base:
                    h.require('same-base-accepted-%d' % b2, r[0] == 'ok')
                else:
                    h.require('other-base-duplicate-definition-%d' % b2, res_is(r, DUPDEF))
        obs = [res[0]]
    elif which == 'erase-layout':
        # three arrays, erase one: the others keep content and stay contiguous / disjoint
        sizes = [h.concretize(h.int('d%d' % q, 0, 2), 4) for q in range(3)]
        names = h.params.get('names', [b'A!', b'LONGNAME%', b'C#'])
        ndims = h.params.get('ndims', [1, 1, 1])
        for nm, d, nd in zip(names, sizes, ndims):
            arr.allocate(nm, [d] + [1] * (nd - 1))
        fill = {}
        for nm in names:
            b = arr._buffers[nm]
            fill[nm] = h.bytes('f' + nm[:1].decode().lower(), len(b))
            b[:] = fill[nm]
        victim = h.concretize(h.int('victim', 0, 2), 4)
        r = h.call(arr.erase_, iter([names[victim]]))
        h.require('erase-ok', r[0] == 'ok')
        rest = [nm for i, nm in enumerate(names) if i != victim]
        h.require('others-remain', sorted(arr._dims) == sorted(rest))
        pos = 0
        okl = True
        for nm in rest:
            name_ptr, array_ptr = arr._array_memory[nm]
            rec = 1 + max(3, len(nm)) + 3 + 2 * ndims[names.index(nm)]
            okl = okl and name_ptr == pos and array_ptr == pos + rec
            pos = array_ptr + len(arr._buffers[nm])
            h.require('content-kept-' + nm[:1].decode(), bytes_eq(list(arr._buffers[nm]), list(fill[nm])))
            # PEEK at VARPTR of the first element still returns the element (C11)
            if len(arr._buffers[nm]):
                vp = arr.varptr(nm, [0] * ndims[names.index(nm)])
                h.require('peek-at-varptr-after-erase-' + nm[:1].decode(), arr.get_memory(vp) == list(fill[nm])[0])
        h.require('records-contiguous', okl and arr.current == pos)
        obs = [sizes, victim]
    return obs


def cases(tier):
    cs = []
    thorough = tier == 'thorough'
    for n in (1, 2, 3, 4):
        cs.append(Case('index-%dd' % n, body_index, backend='INT', params={'n': n}, timeout_s=3000,
                       query_timeout_ms=900000))
        for k in (1, 2, 3, 4):
            if abs(n - k) > 1 and not thorough:
                continue
            cs.append(Case('check_dim-%dd-%dsubs' % (n, k), body_check_dim, backend='INT',
                           params={'n': n, 'k': k}))
    shapes = [(0,), (1,), (2,), (1, 1), (2, 1), (1, 2), (2, 2), (1, 1, 1), (2, 1, 2)]
    if thorough:
        shapes += [(3,), (3, 2), (2, 2, 2), (1, 2, 1, 1)]
    for shape in shapes:
        for sigil in ([b'%', b'!', b'#', b'$'] if thorough else [b'%', b'#']):
            cs.append(Case('elements-%s-%s' % ('x'.join(map(str, shape)), sigil.decode()),
                           body_elements, params={'shape': shape, 'sigil': sigil}, max_fanout=200))
    for n in (1, 2, 3):
        rng = (-2, 12) if (n < 3 or thorough) else (8, 12)
        cs.append(Case('implicit-dim-%dd' % n, body_history,
                       params={'which': 'implicit', 'n': n, 'range': rng}, max_fanout=2000))
        cs.append(Case('dim-%dd' % n, body_history, params={'which': 'dim', 'n': n}))
    cs.append(Case('erase-layout', body_history, params={'which': 'erase-layout'}))
    cs.append(Case('erase-layout-2d-3d', body_history,
                   params={'which': 'erase-layout', 'names': [b'A!', b'M%', b'C#'], 'ndims': [1, 2, 3]}))
    cs.append(Case('erase-layout-long-names', body_history,
                   params={'which': 'erase-layout', 'ndims': [2, 1, 1],
                           'names': [b'A234567890123456789012345678901234567890%',
                                     b'B23456789012345678901234567890123456789!', b'C#']}))
    return cs
