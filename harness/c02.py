"""C02 -- Integer operators follow 16-bit two's-complement semantics.

Real code: values.intdiv / mod_ / and_ / or_ / xor_ / eqv_ / imp_ / not_, Integer.iadd / isub /
ineg / iabs / idiv_int / imod / from_int / to_int.
Operands: 2 symbolic bytes each  (= all 2^32 ordered pairs, all 65536 values for unary ops).
"""

from symx.runner import Case
from .common import *

ORACLE = ('exact integer relations: a = b*q + r with |r| < |b| and sign(r) = sign(a) (uniquely '
          'defines truncating quotient and remainder); bitwise ops on the 16-bit pattern '
          'computed bit by bit; Overflow iff the exact result leaves -32768..32767')
BOUNDS = {'operands': 'all 2^32 pairs of 16-bit values (2 symbolic bytes per operand); '
                      'single-precision operands of the bitwise operators: all 2^32 bit patterns',
          'outside': 'PRINT formatting of results; the FOR counter is checked at Integer.iadd '
                     '(the operation iterate_loop applies), not through a whole program run'}
ASSUMPTIONS = ['z3 decides bit-vector / integer formulas correctly',
               'symx models of int/bytearray/memoryview/struct operations (validated per path '
               'against the pristine code under /venv/bin/python)']


def _operands(h):
    a = h.bytes('a', 2)
    b = h.bytes('b', 2)
    vals = mk_values(h)
    return a, b, vals, mk_num(h, vals, a), mk_num(h, vals, b)


def body_divmod(h):
    a, b, vals, A, B = _operands(h)
    V = h.P.basic.values.values
    va, vb = s16(a), s16(b)
    q = h.call(V.intdiv, A, B)
    # operands must not have been modified
    h.require('operands-unchanged', s_and(bytes_eq(raw_of(A), a), bytes_eq(raw_of(B), b)))
    r = h.call(V.mod_, A, B)
    bzero = (vb == 0)
    h.require('div0-intdiv', s_iff(bzero, s_and(q[0] == 'err', q[1] == DIV0) if q[0] == 'err' else False))
    h.require('div0-mod', s_iff(bzero, s_and(r[0] == 'err', r[1] == DIV0) if r[0] == 'err' else False))
    obs = [q[0], r[0]]
    if q[0] == 'exc' or r[0] == 'exc':
        h.require('no-foreign-exception', False)
        return obs + [q[1], r[1]]
    if r[0] == 'ok':
        R = s16(raw_of(r[1]))
        obs.append(R)
        absb = ite(vb < 0, -vb, vb)
        absr = ite(R < 0, -R, R)
        h.require('mod-magnitude', absr < absb)
        h.require('mod-sign', s_or(R == 0, (R < 0) == (va < 0)))
        if q[0] == 'ok':
            Q = s16(raw_of(q[1]))
            obs.append(Q)
            h.require('a=b*q+r', va == vb * Q + R)
            h.require('types', type(q[1]).__name__ == 'Integer' and type(r[1]).__name__ == 'Integer')
        else:
            obs.append(q[1])
            # quotient may only overflow at -32768 \ -1
            h.require('overflow-only-at-min\\-1', s_and(q[1] == OVERFLOW, va == -32768, vb == -1, R == 0))
    else:
        obs.append(r[1])
        h.require('mod-error-only-div0', bzero)
        if q[0] == 'ok':
            h.require('intdiv-error-with-mod', False)
    return obs


BITOPS = {
    'and_': lambda x, y: x & y,
    'or_': lambda x, y: x | y,
    'xor_': lambda x, y: x ^ y,
    'eqv_': lambda x, y: 1 - (x ^ y),
    'imp_': lambda x, y: (1 - x) | y,
}


def _bits(v, n=16):
    return [(v >> k) & 1 for k in range(n)]


def body_bitop(h):
    op = h.params['op']
    a, b, vals, A, B = _operands(h)
    V = h.P.basic.values.values
    res = h.call(getattr(V, op), A, B)
    if res[0] != 'ok':
        h.require('no-error-on-integers', False)
        return [res[0], res[1]]
    out = raw_of(res[1])
    ua, ub, ur = u16(a), u16(b), u16(out)
    f = BITOPS[op]
    conds = [f(x, y) == z for x, y, z in zip(_bits(ua), _bits(ub), _bits(ur))]
    h.require('bitwise', s_and(*conds))
    h.require('type', type(res[1]).__name__ == 'Integer')
    return ['ok', out]


def body_not(h):
    a = h.bytes('a', 2)
    vals = mk_values(h)
    A = mk_num(h, vals, a)
    V = h.P.basic.values.values
    res = h.call(V.not_, A)
    if res[0] != 'ok':
        h.require('no-error', False)
        return [res[0], res[1]]
    out = raw_of(res[1])
    h.require('bitwise-not', s_and(*[x + z == 1 for x, z in zip(_bits(u16(a)), _bits(u16(out)))]))
    h.require('not=-x-1', s16(out) == -s16(a) - 1)
    return ['ok', out]


def body_iadd(h):
    """The FOR counter update: Integer.iadd (and isub) must be exact or raise Overflow."""
    a, b, vals, A, B = _operands(h)
    sub = h.params.get('sub', False)
    va, vb = s16(a), s16(b)
    exact = va - vb if sub else va + vb
    inrange = s_and(exact >= -32768, exact <= 32767)
    C = A.clone()
    res = h.call(C.isub if sub else C.iadd, B)
    if res[0] == 'ok':
        h.require('exact-sum', s16(raw_of(res[1])) == exact)
        h.require('no-missed-overflow', inrange)
        h.require('rhs-unchanged', bytes_eq(raw_of(B), b))
        return ['ok', raw_of(res[1])]
    h.require('error-is-overflow', res[0] == 'err' and res[1] == OVERFLOW)
    if sub:
        # documented quirk (DESIGN C02): isub negates the rhs first, so a - (-32768) raises
        # Overflow even when the exact difference is representable; values.sub never uses
        # Integer.isub (it promotes to float), so this is outside the property.
        h.require('overflow-justified', s_or(s_not(inrange), vb == -32768))
    else:
        h.require('overflow-justified', s_not(inrange))
    return [res[0], res[1]]


def body_neg_abs(h):
    a = h.bytes('a', 2)
    vals = mk_values(h)
    which = h.params['which']
    A = mk_num(h, vals, a)
    res = h.call(A.ineg if which == 'ineg' else A.iabs)
    va = s16(a)
    exact = -va if which == 'ineg' else ite(va < 0, -va, va)
    if res[0] == 'ok':
        h.require('exact', s16(raw_of(res[1])) == exact)
        h.require('in-range', exact <= 32767)
        return ['ok', raw_of(res[1])]
    h.require('overflow-only-at-min', s_and(res[0] == 'err', res[1] == OVERFLOW, va == -32768))
    return [res[0], res[1]]


def body_from_int(h):
    """Integer.from_int range check (the operand check of every integer conversion).
    Signed: accepted exactly for -32768..32767.  Unsigned view: everything in -32768..65535
    is accepted with its 16-bit two's-complement pattern, everything above 65535 and below
    -65536 raises Overflow.  -65536..-32769 with unsigned=True is deliberately left open:
    eqv_/imp_ hand from_int the complement of an unsigned value (down to -65536) and rely on
    the wrap, while the operators themselves reject such operands earlier through the signed
    conversion (see bitop-single-*)."""
    n = h.int('n', -200000, 200000)
    uns = h.bool('uns')
    vals = mk_values(h)
    N = h.P.basic.values.numbers
    res = h.call(N.Integer(None, vals).from_int, n, bool(uns))
    if uns:
        must_accept = s_and(n >= -32768, n <= 65535)
        must_reject = s_or(n > 65535, n < -65536)
    else:
        must_accept = s_and(n >= -32768, n <= 32767)
        must_reject = s_not(must_accept)
    if res[0] == 'ok':
        h.require('not-accepted-out-of-range', s_not(must_reject))
        out = raw_of(res[1])
        h.require('pattern', (u16(out) - n) % 65536 == 0)
        return ['ok', out]
    h.require('rejected-only-out-of-range', s_and(res[0] == 'err', res[1] == OVERFLOW,
                                                  s_not(must_accept)))
    return [res[0], res[1]]


def body_cmp(h):
    a, b, vals, A, B = _operands(h)
    g = h.call(A.gt, B)
    e = h.call(A.eq, B)
    h.require('gt', g[0] == 'ok' and s_iff(g[1], s16(a) > s16(b)))
    h.require('eq', e[0] == 'ok' and s_iff(e[1], s16(a) == s16(b)))
    return [bool(g[1]), bool(e[1])]


def cases(tier):
    cs = [Case('divmod', body_divmod, backend='INT')]
    for op in sorted(BITOPS):
        cs.append(Case('bitop-' + op, body_bitop, params={'op': op}))
    cs.append(Case('not', body_not))
    cs.append(Case('iadd', body_iadd))
    cs.append(Case('isub', body_iadd, params={'sub': True}))
    cs.append(Case('ineg', body_neg_abs, params={'which': 'ineg'}))
    cs.append(Case('iabs', body_neg_abs, params={'which': 'iabs'}))
    cs.append(Case('from_int', body_from_int))
    cs.append(Case('cmp', body_cmp))
    return cs
