"""C05 -- Arithmetic identities hold for every value.

Real code: values.add/sub/mul/div/neg/abs_/sgn_, match_types, Float.iadd/isub/imul/idiv/
_add_den/_div_den/_normalise/_denormalise/_bring_to_range/_check_limits, Float.from_int,
Double.from_single.
Operands: raw symbolic bytes (all encodings incl. non-canonical zeros) for all type pairings.
"""
from symx.runner import Case
from .common import *

ORACLE = ('identities are compared on result bytes (bit for bit) or, where the operand is a '
          'zero encoding, on exact values (FVal: sign, exponent, 56-bit mantissa)')
BOUNDS = {'operands': 'all bit patterns, all 9 type pairings',
          'abstraction': 'x*y = y*x is decided with the mathematical product abstracted to one '
                         'fresh variable per unordered operand pair (a proof under the abstraction '
                         'holds for the real product)',
          'outside': 'error-handler console messages (handler raises instead of printing)'}
ASSUMPTIONS = ['z3/cvc5 decide the formulas correctly', 'symx models validated per path']

IFC = {'basic.values.numbers': ['_div_den']}
ONE = {'i': [1, 0], 's': [0, 0, 0, 0x81], 'd': [0, 0, 0, 0, 0, 0, 0, 0x81]}
WIDER = {('i', 'i'): 's', ('i', 's'): 's', ('s', 'i'): 's', ('s', 's'): 's'}


def wider(ta, tb):
    return WIDER.get((ta, tb), 'd')


def _res(h, res):
    """normalise a call result into something observable"""
    if res[0] == 'ok':
        return ['ok', type(res[1]).__name__, raw_of(res[1])]
    return [res[0], res[1]]


def _same(h, label, r1, r2):
    """two call results are identical (same error or same type and bytes)"""
    if r1[0] != r2[0]:
        h.require(label, False)
        return
    if r1[0] != 'ok':
        h.require(label, r1[1] == r2[1])
        return
    h.require(label, type(r1[1]).__name__ == type(r2[1]).__name__ and
              bytes_eq(raw_of(r1[1]), raw_of(r2[1])))


def _promote_expect(h, vals, raw, t_from, t_to):
    """exact value of the promoted operand"""
    return FVal.of_raw(raw)


def body_commute(h):
    ta, tb = h.params['types']
    op = h.params['op']
    a, b = h.bytes('a', TYPES[ta]), h.bytes('b', TYPES[tb])
    vals = mk_values(h)
    V = h.P.basic.values.values
    A, B = mk_num(h, vals, a), mk_num(h, vals, b)
    r1 = h.call(getattr(V, op), A, B)
    r2 = h.call(getattr(V, op), mk_num(h, vals, b), mk_num(h, vals, a))
    _same(h, '%s-commutes' % op, r1, r2)
    h.require('operands-unchanged', s_and(bytes_eq(raw_of(A), a), bytes_eq(raw_of(B), b)))
    return [_res(h, r1), _res(h, r2)]


def body_neutral(h):
    """x+0, x*1, x/1, x-x, neg neg, abs, sgn for one operand type and one type of the constant"""
    ta, tb = h.params['types']
    which = h.params['which']
    a = h.bytes('a', TYPES[ta])
    vals = mk_values(h)
    V = h.P.basic.values.values
    A = mk_num(h, vals, a)
    x = FVal.of_raw(a)
    tw = wider(ta, tb)
    obs = []
    if which == 'add0':
        # any zero encoding of type tb
        z = h.bytes('z', TYPES[tb])
        if tb != 'i':
            h.assume(z[-1] == 0)
        else:
            h.assume(s_and(z[0] == 0, z[1] == 0))
        for order in ('x+0', '0+x'):
            Z = mk_num(h, vals, z)
            res = h.call(V.add, A, Z) if order == 'x+0' else h.call(V.add, Z, mk_num(h, vals, a))
            obs.append(_res(h, res))
            if res[0] != 'ok':
                h.require(order + '-no-error', False)
                continue
            r = raw_of(res[1])
            h.require(order + '-type', len(r) == TYPES[tw])
            h.require(order + '-value', f_eq(FVal.of_raw(r), x))
            if ta == tw:
                # same type: bit for bit unless x itself is a (non-canonical) zero
                h.require(order + '-bits', s_or(x.zero, bytes_eq(r, a)))
    elif which in ('mul1', 'div1'):
        one = ONE[tb]
        fn = V.mul if which == 'mul1' else V.div
        if tw == 's' and which in ('mul1', 'div1'):
            pass
        res = h.call(fn, A, mk_num(h, vals, bytes(one)))
        obs.append(_res(h, res))
        if res[0] != 'ok':
            h.require(which + '-no-error', False)
        else:
            r = raw_of(res[1])
            h.require(which + '-type', len(r) == TYPES[tw])
            h.require(which + '-value', f_eq(FVal.of_raw(r), x))
            if ta == tw:
                h.require(which + '-bits', s_or(x.zero, bytes_eq(r, a)))
        if which == 'mul1':
            res2 = h.call(fn, mk_num(h, vals, bytes(one)), mk_num(h, vals, a))
            obs.append(_res(h, res2))
            h.require('1*x-value', res2[0] == 'ok' and f_eq(FVal.of_raw(raw_of(res2[1])), x))
    elif which == 'subself':
        res = h.call(V.sub, A, mk_num(h, vals, a))
        obs.append(_res(h, res))
        h.require('x-x-is-zero', res[0] == 'ok' and FVal.of_raw(raw_of(res[1])).zero)
    elif which == 'unary':
        n1 = h.call(V.neg, A)
        obs.append(_res(h, n1))
        if n1[0] == 'ok':
            y = FVal.of_raw(raw_of(n1[1]))
            h.require('neg-value', s_and(s_iff(y.zero, x.zero),
                                         s_or(x.zero, s_and(y.E == x.E, y.M == x.M, s_not(s_iff(y.neg, x.neg))))))
            n2 = h.call(V.neg, n1[1])
            obs.append(_res(h, n2))
            h.require('neg-neg', n2[0] == 'ok' and f_eq(FVal.of_raw(raw_of(n2[1])), x))
            if ta != 'i' and n2[0] == 'ok':
                h.require('neg-neg-bits', bytes_eq(raw_of(n2[1]), a))
        else:
            h.require('neg-no-error', False)
        ab = h.call(V.abs_, iter([mk_num(h, vals, a)]))
        obs.append(_res(h, ab))
        if ab[0] == 'ok':
            y = FVal.of_raw(raw_of(ab[1]))
            h.require('abs-nonnegative', s_or(y.zero, s_not(y.neg)))
            h.require('abs-is-x-or-minus-x', s_and(s_iff(y.zero, x.zero),
                                                   s_or(x.zero, s_and(y.E == x.E, y.M == x.M))))
        else:
            h.require('abs-no-error', False)
        sg = h.call(V.sgn_, iter([mk_num(h, vals, a)]))
        obs.append(_res(h, sg))
        if sg[0] == 'ok' and type(sg[1]).__name__ == 'Integer':
            s = s16(raw_of(sg[1]))
            h.require('sgn', s == ite(x.zero, 0, ite(x.neg, -1, 1)))
        else:
            h.require('sgn-integer', False)
    h.require('operand-unchanged', bytes_eq(raw_of(A), a))
    return obs


def body_promote(h):
    """op(x, y) on mixed types == op on operands first converted to the wider type"""
    ta, tb = h.params['types']
    op = h.params['op']
    a, b = h.bytes('a', TYPES[ta]), h.bytes('b', TYPES[tb])
    vals = mk_values(h)
    V = h.P.basic.values.values
    A, B = mk_num(h, vals, a), mk_num(h, vals, b)
    tw = wider(ta, tb)
    conv = V.to_single if tw == 's' else V.to_double
    r1 = h.call(getattr(V, op), A, B)
    PA, PB = h.call(conv, mk_num(h, vals, a)), h.call(conv, mk_num(h, vals, b))
    if PA[0] != 'ok' or PB[0] != 'ok':
        h.require('promotion-no-error', False)
        return [_res(h, r1)]
    # promotion itself is exact
    h.require('promotion-exact', s_and(f_eq(FVal.of_raw(raw_of(PA[1])), FVal.of_raw(a)),
                                       f_eq(FVal.of_raw(raw_of(PB[1])), FVal.of_raw(b)),
                                       len(raw_of(PA[1])) == TYPES[tw], len(raw_of(PB[1])) == TYPES[tw]))
    r2 = h.call(getattr(V, op), PA[1], PB[1])
    _same(h, '%s-promotes-first' % op, r1, r2)
    return [_res(h, r1), _res(h, r2)]


def cases(tier):
    """quick: float pairings (the integer pairings fork once per bit length of every integer
    operand in Float.from_int and take ~15 min on 16 cores: thorough tier)."""
    cs = []
    thorough = (tier == 'thorough')
    pairs = [(x, y) for x in 'isd' for y in 'isd']
    for ta, tb in pairs:
        nm = ta + tb
        has_i = 'i' in nm
        if (ta <= tb and not has_i and nm != 'dd') or thorough:
            cs.append(Case('add-commutes-' + nm, body_commute, params={'types': (ta, tb), 'op': 'add'},
                           timeout_s=3000))
        if nm == 'ss' or thorough:
            cs.append(Case('mul-commutes-' + nm, body_commute, params={'types': (ta, tb), 'op': 'mul'},
                           abstract_products=True, timeout_s=3000))
        for which in ('add0', 'mul1', 'div1'):
            if which == 'div1' and nm == 'id' and not thorough:
                continue
            cs.append(Case('%s-%s' % (which, nm), body_neutral, ifconvert=IFC,
                           params={'types': (ta, tb), 'which': which}, timeout_s=3000))
        if ta != tb:
            for op in ('add', 'sub', 'mul', 'div'):
                if not thorough and (has_i or op in ('mul', 'div')):
                    continue
                if op == 'div' and nm in ('id', 'di', 'sd', 'ds'):
                    # the 56-step double-precision divider behind a promotion: id/di ran > 50 min, sd/ds
                    # ended with the solver answering unknown at a branch after 40 min -- not run
                    continue
                cs.append(Case('promote-%s-%s' % (op, nm), body_promote, ifconvert=IFC,
                               abstract_products=(op == 'mul'),
                               query_timeout_ms=(900000 if op == 'div' else 120000),
                               params={'types': (ta, tb), 'op': op}, timeout_s=3000))
    for ta in 'isd':
        cs.append(Case('subself-' + ta, body_neutral, params={'types': (ta, ta), 'which': 'subself'}))
        cs.append(Case('unary-' + ta, body_neutral, params={'types': (ta, ta), 'which': 'unary'}))
    return cs
