"""C09 -- String functions and statements match their reference definitions.

Real code: StringFunctions.left_/right_/mid_/instr_/string_, values.len_/asc_/chr_/space_,
String.add/eq/gt/len/asc/space/lset/midset, values.add/eq/gt on strings, StringSpace.store/view.
"""
from symx.runner import Case
from .common import *

ORACLE = ('Python slice definitions on the same symbolic bytes: LEFT$ = s[:n], RIGHT$ = s[-n:], '
          'MID$ = s[start-1:start-1+n], INSTR = first match position, byte-wise lexicographic order '
          'with the shorter prefix first; Illegal function call exactly for arguments outside their '
          'ranges, String too long exactly above 255 characters')
BOUNDS = {'strings': 'every byte value, lengths 0..4 (quick) / 0..6 (thorough) and 254/255 for the '
                     'length limits', 'numbers': 'every 16-bit integer argument (all bit patterns); for three-argument MID$ both '
                     'numbers range over -2..len+2, 253..257 and the extremes',
          'outside': 'single/double arguments (their rounding is C03), garbage collection (C10)'}
ASSUMPTIONS = ['z3 decides the formulas', 'symx models validated per path',
               'StringSpace over a stub memory (fixed layout, check_free never fails)']


class Temps(object):
    def __init__(self):
        self.items = []

    def add(self, x):
        self.items.append(x)

    def remove(self, x):
        if x in self.items:
            self.items.remove(x)

    # (the real object is a set: discard is remove without KeyError)
    discard = remove


def _sf(h):
    vals = mk_values_s(h)
    V = h.P.basic.values.values
    return vals, V, V.StringFunctions(Temps())


def _str_result(res):
    if res[0] != 'ok' or type(res[1]).__name__ != 'String':
        return None
    return list(res[1].to_str())


def _expect_str(h, label, res, want):
    got = _str_result(res)
    if got is None:
        h.require(label + '-returns-string', False)
        return [res[0], res[1] if res[0] != 'ok' else None]
    h.require(label, bytes_eq(got, want))
    return got


def body_slice(h):
    fn = h.params['fn']
    L = h.params['len']
    vals, V, SF = _sf(h)
    sb = h.bytes('s', L)
    S = mk_str(h, vals, sb)
    items = list(sb)
    nraw = h.bytes('n', 2)
    N = mk_num(h, vals, nraw)
    n = s16(nraw)
    if fn in ('left', 'right'):
        res = h.call(SF.left_ if fn == 'left' else SF.right_, iter([S, N]))
        bad = s_or(n < 0, n > 255)
        if res[0] == 'err':
            h.require('ifc-only-out-of-range', s_and(res[1] == IFC, bad))
            return [res[0], res[1]]
        h.require('out-of-range-rejected', s_not(bad))
        k = h.concretize(n, 300)
        want = items[:k] if fn == 'left' else (items[-k:] if k else [])
        return _expect_str(h, fn, res, want)
    # MID$(s, start [, num])
    has_num = h.params['num']
    args = [S, N]
    if has_num:
        mraw = h.bytes('m', 2)
        M = mk_num(h, vals, mraw)
        m = s16(mraw)
        args.append(M)
        # both arguments end up as concrete slice bounds: keep the product of their ranges small
        # (values around the string length and around the 0 / 255 limits, plus far outside)
        near = lambda v: s_or(s_and(v >= -2, v <= L + 2), s_and(v >= 253, v <= 257), v == -32768,
                              v == 32767)
        h.assume(s_and(near(n), near(m)))
    else:
        args.append(None)
        m = L
    res = h.call(SF.mid_, iter(args))
    bad = s_or(n < 1, n > 255, m < 0, m > 255)
    if res[0] == 'err':
        h.require('ifc-only-out-of-range', s_and(res[1] == IFC, bad))
        return [res[0], res[1]]
    h.require('out-of-range-rejected', s_not(bad))
    st = h.concretize(n, 300)
    mm = h.concretize(m, 300) if has_num else L
    want = items[st - 1:st - 1 + mm] if (mm and st <= L) else []
    return _expect_str(h, 'mid', res, want)


def body_instr(h):
    Lb, Ls = h.params['lens']
    vals, V, SF = _sf(h)
    big, small = h.bytes('b', Lb), h.bytes('s', Ls)
    B, S = mk_str(h, vals, big), mk_str(h, vals, small)
    with_start = h.params['start']
    if with_start:
        nraw = h.bytes('n', 2)
        n = s16(nraw)
        res = h.call(SF.instr_, iter([mk_num(h, vals, nraw), B, S]))
        bad = s_or(n < 1, n > 255)
        if res[0] == 'err':
            h.require('ifc-only-out-of-range', s_and(res[1] == IFC, bad))
            return [res[0], res[1]]
        h.require('out-of-range-rejected', s_not(bad))
    else:
        n = 1
        res = h.call(SF.instr_, iter([B, S]))
    if res[0] != 'ok' or type(res[1]).__name__ != 'Integer':
        h.require('returns-integer', False)
        return [res[0]]
    pos = s16(raw_of(res[1]))
    bi, si = list(big), list(small)
    # reference: smallest p >= n with big[p-1:p-1+Ls] == small; 0 if none or big empty or n > len
    def match(p):
        if p - 1 + Ls > Lb:
            return False
        return s_and(*[bi[p - 1 + q] == si[q] for q in range(Ls)])
    want = 0
    for p in range(Lb + 1, 0, -1):
        if p > Lb and Ls > 0:
            continue
        if p > Lb:
            continue
        want = ite(s_and(p >= n, match(p)), p, want)
    if Lb == 0:
        want = 0
    h.require('instr', pos == want)
    return [pos]


def body_cmp(h):
    La, Lb = h.params['lens']
    vals, V, SF = _sf(h)
    a, b = h.bytes('a', La), h.bytes('b', Lb)
    A, B = mk_str(h, vals, a), mk_str(h, vals, b)
    ai, bi = list(a), list(b)
    # reference lexicographic order, shorter prefix first
    gt = La > Lb
    for i in range(min(La, Lb) - 1, -1, -1):
        gt = ite(ai[i] > bi[i], True, ite(ai[i] < bi[i], False, gt))
    eq = (La == Lb) and s_and(*[x == y for x, y in zip(ai, bi)]) if La == Lb else False
    obs = []
    for op, want in (('eq', eq), ('neq', s_not(eq)), ('gt', gt), ('lte', s_not(gt))):
        res = h.call(getattr(V, op), A, B)
        r = bool_result(res)
        if r is None:
            h.require(op + '-returns-integer', False)
            continue
        h.require(op, s_iff(r[0] != 0, want))
        obs.append(r)
    cat = h.call(V.add, A, B)
    obs.append(_expect_str(h, 'concatenation', cat, ai + bi))
    return obs


def body_misc(h):
    """LEN, ASC, CHR$, SPACE$, STRING$ with symbolic numeric arguments"""
    L = h.params['len']
    vals, V, SF = _sf(h)
    sb = h.bytes('s', L)
    S = mk_str(h, vals, sb)
    obs = []
    r = h.call(V.len_, iter([S]))
    h.require('len', result_is_int(r, L))
    r = h.call(V.asc_, iter([mk_str(h, vals, sb)]))
    if L == 0:
        h.require('asc-empty-ifc', r[0] == 'err' and r[1] == IFC)
    else:
        h.require('asc', result_is_int(r, list(sb)[0]))
    nraw = h.bytes('n', 2)
    n = s16(nraw)
    r = h.call(V.chr_, iter([mk_num(h, vals, nraw)]))
    bad = s_or(n < 0, n > 255)
    if r[0] == 'err':
        h.require('chr-ifc-only-out-of-range', s_and(r[1] == IFC, bad))
    else:
        h.require('chr-out-of-range-rejected', s_not(bad))
        obs.append(_expect_str(h, 'chr', r, [n]))
    r = h.call(V.space_, iter([mk_num(h, vals, nraw)]))
    if r[0] == 'err':
        h.require('space-ifc-only-out-of-range', s_and(r[1] == IFC, bad))
    else:
        h.require('space-out-of-range-rejected', s_not(bad))
        k = h.concretize(n, 300)
        got = _str_result(r)
        h.require('space', got is not None and got == [32] * k)
    craw = h.bytes('c', 2)
    c = s16(craw)
    r = h.call(SF.string_, iter([mk_num(h, vals, nraw), mk_num(h, vals, craw)]))
    badc = s_or(c < 0, c > 255)
    if r[0] == 'err':
        h.require('string-ifc-only-out-of-range', s_and(r[1] == IFC, s_or(bad, badc)))
    else:
        h.require('string-out-of-range-rejected', s_and(s_not(bad), s_not(badc)))
        k = h.concretize(n, 300)
        got = _str_result(r)
        h.require('string$', got is not None and len(got) == k and s_and(*[g == c for g in got]))
    if L:
        r = h.call(SF.string_, iter([mk_num(h, vals, nraw), mk_str(h, vals, sb)]))
        if r[0] == 'ok':
            k = h.concretize(n, 300)
            got = _str_result(r)
            h.require('string$-char', got is not None and len(got) == k and
                      s_and(*[g == list(sb)[0] for g in got]))
        else:
            h.require('string$-char-ifc', s_and(r[0] == 'err', r[1] == IFC, bad))
    return obs


def body_toolong(h):
    """concatenation above 255 characters raises String too long, 255 is fine"""
    La, Lb = h.params['lens']
    vals, V, SF = _sf(h)
    fill = h.byte('fill')
    a = bytes([65]) * La if not h.symbolic else seqs_fill(fill, La)
    b = bytes([66]) * Lb
    if not h.symbolic:
        a = bytes([fill]) * La
    A, B = mk_str(h, vals, a), mk_str(h, vals, b)
    r = h.call(V.add, A, B)
    if La + Lb > 255:
        h.require('string-too-long', r[0] == 'err' and r[1] == STRING_TOO_LONG)
    else:
        got = _str_result(r)
        h.require('concatenation-at-limit', got is not None and len(got) == La + Lb and
                  s_and(*[g == fill for g in got[:La]]))
    return [r[0]]


def seqs_fill(fill, n):
    from symx import seqs
    return seqs.SBytes([fill] * n)


def body_inplace(h):
    """LSET / RSET / MID$= : target length unchanged, contents per definition"""
    Lt, Lv = h.params['lens']
    which = h.params['which']
    vals, V, SF = _sf(h)
    t, v = h.bytes('t', Lt), h.bytes('v', Lv)
    T, Vv = mk_str(h, vals, t), mk_str(h, vals, v)
    ti, vi = list(t), list(v)
    if which in ('lset', 'rset'):
        T.lset(Vv, which == 'rset')
        got = list(T.to_str())
        cut = vi[:Lt]
        pad = [32] * (Lt - len(cut))
        want = (pad + cut) if which == 'rset' else (cut + pad)
        h.require(which + '-length-unchanged', len(got) == Lt)
        h.require(which, bytes_eq(got, want))
        h.require('source-unchanged', bytes_eq(list(Vv.to_str()), vi))
        return got
    start = h.int('start', 1, Lt + 1)
    num = h.int('num', 0, 255)
    st = h.concretize(start, 300)
    nm = h.concretize(num, 300)
    if which == 'midself':
        # MID$(A$, start, num) = A$ : source and target are the same string; GW-BASIC copies byte
        # by byte from left to right, so already overwritten bytes are copied again
        T.midset(st, nm, T)
        got = list(T.to_str())
        k = min(nm, Lt, max(0, Lt - (st - 1)))
        want = list(ti)
        for i in range(k):
            want[st - 1 + i] = want[i]
        h.require('midself-length-unchanged', len(got) == Lt)
        h.require('midself-left-to-right', bytes_eq(got, want))
        return got
    T.midset(st, nm, Vv)
    got = list(T.to_str())
    h.require('midset-length-unchanged', len(got) == Lt)
    k = min(nm, Lv, max(0, Lt - (st - 1)))
    want = ti[:st - 1] + vi[:k] + ti[st - 1 + k:]
    h.require('midset', bytes_eq(got, want))
    return got


def cases(tier):
    cs = []
    maxl = 6 if tier == 'thorough' else 3
    for L in range(0, maxl + 1):
        for fn in ('left', 'right'):
            cs.append(Case('%s-len%d' % (fn, L), body_slice, params={'fn': fn, 'len': L, 'num': False},
                           max_fanout=600))
        cs.append(Case('mid2-len%d' % L, body_slice, params={'fn': 'mid', 'len': L, 'num': False},
                       max_fanout=600))
        cs.append(Case('misc-len%d' % L, body_misc, params={'len': L}, max_fanout=600))
    for L in ((0, 2) if tier != 'thorough' else (0, 1, 2, 3)):
        cs.append(Case('mid3-len%d' % L, body_slice, params={'fn': 'mid', 'len': L, 'num': True},
                       max_fanout=600, max_paths=400000, timeout_s=3000))
    for Lb in range(0, maxl + 1):
        for Ls in range(0, min(Lb + 1, 2) + 1):
            cs.append(Case('instr-%d-%d' % (Lb, Ls), body_instr, params={'lens': (Lb, Ls), 'start': False}))
            if Lb <= 3:
                cs.append(Case('instr-start-%d-%d' % (Lb, Ls), body_instr,
                               params={'lens': (Lb, Ls), 'start': True}, max_fanout=600))
    for La in range(0, maxl + 1):
        for Lb in range(0, maxl + 1):
            cs.append(Case('cmp-%d-%d' % (La, Lb), body_cmp, params={'lens': (La, Lb)}))
    for lens in ((254, 1), (255, 0), (255, 1), (200, 56), (128, 128)):
        cs.append(Case('limit-%d-%d' % lens, body_toolong, params={'lens': lens}))
    for lens in ((0, 2), (2, 0), (3, 2), (2, 3), (3, 3), (5, 1)):
        for which in ('lset', 'rset', 'midset', 'midself'):
            if which in ('midset', 'midself') and lens[0] == 0:
                continue
            cs.append(Case('%s-%d-%d' % (which, lens[0], lens[1]), body_inplace,
                           params={'lens': lens, 'which': which}, max_fanout=600))
    return cs
