"""Shared helpers for harness bodies (work with symbolic and concrete values alike)."""

from symx import core, seqs
from symx.core import ite, s_and, s_or, s_not, s_implies, s_iff

OVERFLOW = 6
DIV0 = 11
IFC = 5
TYPE_MISMATCH = 13
STRING_TOO_LONG = 15
SUBSCRIPT = 9
DUPDEF = 10
OUT_OF_MEMORY = 7
OUT_OF_STRING_SPACE = 14
BAD_RECORD_NUMBER = 63
PERMISSION_DENIED = 70


def mk_values(h, double_math=False, stringspace=None):
    """A real Values object whose float error handler always raises (no console)."""
    V = h.P.basic.values.values
    vals = V.Values(stringspace, double_math)
    vals.set_handler(V.FloatErrorHandler(None))
    return vals


def mk_num(h, vals, raw):
    """Real Integer/Single/Double from 2/4/8 raw bytes."""
    N = h.P.basic.values.numbers
    cls = {2: N.Integer, 4: N.Single, 8: N.Double}[len(raw)]
    return cls(None, vals).from_bytes(raw)


def raw_of(v):
    """Byte items of a real value object."""
    return list(v.to_bytes())


def items(b):
    return list(b)


def u16(b):
    return b[0] + b[1] * 256


def s16(b):
    u = u16(b)
    return ite(b[1] >= 128, u - 65536, u)


def bytes_eq(a, b):
    a, b = list(a), list(b)
    if len(a) != len(b):
        return False
    return s_and(*[x == y for x, y in zip(a, b)])


def s16_bytes(v):
    """Two little-endian byte values of a 16-bit signed value (as formula terms)."""
    u = ite(v < 0, v + 65536, v)
    return [u % 256, u // 256]


def result_is_int(res, value):
    """res == ('ok', Integer with this exact value)"""
    if res[0] != 'ok':
        return False
    r = res[1]
    if type(r).__name__ != 'Integer':
        return False
    return s16(raw_of(r)) == value


# ---- exact description of MBF floats -------------------------------------------------------

class FVal(object):
    """Exact value of an MBF float: zero, or (-1)^neg * man * 2^(exp - bias) with man having
    its top (assumed) bit set; man has nbits bits."""

    def __init__(self, raw):
        raw = list(raw)
        self.n = len(raw)
        self.nbits = 8 * (self.n - 1)
        self.expbyte = raw[-1]
        self.zero = (raw[-1] == 0)
        self.neg = (raw[-2] >= 128)
        man = 0
        for k in range(self.n - 1):
            man = man + raw[k] * (1 << (8 * k))
        # replace sign bit by the assumed leading one
        top = 1 << (self.nbits - 1)
        self.man = ite(self.neg, man, man + top)
        # value = man * 2^(expbyte - 128 - nbits)
        self.scale_bias = 128 + self.nbits


def fval_scaled(f, shift):
    """Signed exact value times 2^shift as an integer formula -- only valid when the true
    scale (expbyte - bias + shift) is >= 0 ... callers ensure that by construction."""
    raise NotImplementedError
