"""Shared helpers for harness bodies (work with symbolic and concrete values alike)."""

from symx import core, seqs
from symx.core import ite, s_and, s_or, s_not, s_implies, s_iff

OVERFLOW = 6
DIV0 = 11
IFC = 5
TYPE_MISMATCH = 13
STRING_TOO_LONG = 15
SUBSCRIPT = 9
DUPDEF = 10
OUT_OF_MEMORY = 7
OUT_OF_STRING_SPACE = 14
BAD_RECORD_NUMBER = 63
PERMISSION_DENIED = 70


def mk_values(h, double_math=False, stringspace=None):
    """A real Values object whose float error handler always raises (no console)."""
    V = h.P.basic.values.values
    vals = V.Values(stringspace, double_math)
    vals.set_handler(V.FloatErrorHandler(None))
    return vals


class StubMemory(object):
    """Stand-in for DataSegment as far as StringSpace needs it: fixed layout, unlimited room."""
    code_start = 1000

    def __init__(self):
        self.program = None

    def stack_start(self):
        return 60000

    def var_start(self):
        return 5000

    def check_free(self, size, err):
        pass


def mk_values_s(h, double_math=False):
    """Values with a real StringSpace over a stub memory."""
    S = h.P.basic.values.strings
    return mk_values(h, double_math, S.StringSpace(StubMemory()))


def mk_str(h, vals, content):
    """Real String value holding these bytes."""
    S = h.P.basic.values.strings
    return S.String(None, vals).from_str(content)


def mk_num(h, vals, raw):
    """Real Integer/Single/Double from 2/4/8 raw bytes."""
    N = h.P.basic.values.numbers
    cls = {2: N.Integer, 4: N.Single, 8: N.Double}[len(raw)]
    return cls(None, vals).from_bytes(raw)


def raw_of(v):
    """Byte items of a real value object."""
    return list(v.to_bytes())


def items(b):
    return list(b)


def u16(b):
    return b[0] + b[1] * 256


def s16(b):
    u = u16(b)
    return ite(b[1] >= 128, u - 65536, u)


def bytes_eq(a, b):
    a, b = list(a), list(b)
    if len(a) != len(b):
        return False
    return s_and(*[x == y for x, y in zip(a, b)])


def s16_bytes(v):
    """Two little-endian byte values of a 16-bit signed value (as formula terms)."""
    u = ite(v < 0, v + 65536, v)
    return [u % 256, u // 256]


def result_is_int(res, value):
    """res == ('ok', Integer with this exact value)"""
    if res[0] != 'ok':
        return False
    r = res[1]
    if type(r).__name__ != 'Integer':
        return False
    return s16(raw_of(r)) == value


# ---- exact description of MBF floats -------------------------------------------------------

class FVal(object):
    """Exact value of a number: zero, or (-1)^neg * M * 2^(E - 128 - 56) where M is a 56-bit
    mantissa with its top bit set and E the biased MBF exponent (1..255 for floats).
    Singles are widened exactly (mantissa << 32); Integers are normalised by case analysis."""

    def __init__(self, zero, neg, E, M):
        self.zero, self.neg, self.E, self.M = zero, neg, E, M

    @staticmethod
    def of_raw(raw):
        raw = list(raw)
        if len(raw) == 2:
            return FVal.of_int(s16(raw))
        nb = 8 * (len(raw) - 1)
        man = 0
        for k in range(len(raw) - 1):
            man = man + raw[k] * (1 << (8 * k))
        neg = raw[-2] >= 128
        top = 1 << (nb - 1)
        man = ite(neg, man, man + top)           # sign bit position holds the assumed 1
        return FVal(raw[-1] == 0, neg, raw[-1], man * (1 << (56 - nb)))

    @staticmethod
    def of_int(n, bits=16):
        neg = n < 0
        a = ite(neg, -n, n)
        E, M = 0, 0
        # a in [2^(k-1), 2^k)  ->  E = 128 + k, M = a << (56 - k)
        for k in range(bits, 0, -1):
            c = a < (1 << k)
            E = ite(c, 128 + k, E) if k < bits else 128 + k
            M = ite(c, a * (1 << (56 - k)), M) if k < bits else a * (1 << (56 - k))
        return FVal(n == 0, neg, E, M)


def f_mag_gt(x, y):
    return s_or(x.E > y.E, s_and(x.E == y.E, x.M > y.M))


def f_gt(x, y):
    """exact x > y"""
    return ite(x.zero, s_and(s_not(y.zero), y.neg),
               ite(y.zero, s_not(x.neg),
                   ite(s_iff(x.neg, y.neg),
                       ite(x.neg, f_mag_gt(y, x), f_mag_gt(x, y)),
                       y.neg)))


def f_eq(x, y):
    return ite(s_or(x.zero, y.zero), s_and(x.zero, y.zero),
               s_and(s_iff(x.neg, y.neg), x.E == y.E, x.M == y.M))


def bool_result(res):
    """('ok', Integer -1/0) -> bool formula; anything else -> None"""
    if res[0] != 'ok' or type(res[1]).__name__ != 'Integer':
        return None
    return raw_of(res[1])


TYPES = {'i': 2, 's': 4, 'd': 8}


def int_part(x):
    """(ipart, frac_nonzero, half_rounded) of |x| for an FVal with E <= 184:
    ipart = floor|x|, half_rounded = floor(|x| + 1/2)"""
    k = 184 - x.E                      # >= 0 by precondition
    ipart = x.M >> k
    frac = (ipart << k) != x.M
    km1 = ite(k >= 1, k - 1, 0)
    rounded = ite(k >= 1, ((x.M >> km1) + 1) >> 1, x.M)
    return ipart, frac, rounded


def fval_is_int(r, neg, n):
    """FVal r has exactly the value (-1)^neg * n  (n >= 0 an integer formula < 2^56)"""
    k = 184 - r.E
    kk = ite(k >= 0, k, 0)
    return ite(n == 0, r.zero,
               s_and(s_not(r.zero), s_iff(r.neg, neg), k >= 0, (n << kk) == r.M))
