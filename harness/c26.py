"""C26 -- File sharing and record locks exclude each other.

Real code: Locks.open_file / close_file / try_access / try_record_access / _try_record_lock /
acquire_record_lock / release_record_lock, LockingParameters, Files._get_lock_limits.
"""
from symx.runner import Case
from symx import seqs
from .common import *

ORACLE = ('ranges are integer intervals [start, stop] (empty when start > stop), the whole-file lock '
          'covers everything; two locks conflict iff their record sets intersect; invariant = all '
          'locks held on one file name (through any numbers) are pairwise non-conflicting')
BOUNDS = {'state': '2 file numbers open on the same name each holding up to 1 lock (thorough: also 2 '
                   'numbers x 2 locks and 3 numbers x 1 lock); locks that are symbolic ranges over 1..2^25-2 or the whole-file lock; any such '
                   'state satisfying the invariant (one inductive step from an arbitrary valid state)',
          'step': 'one LOCK / UNLOCK / record access / OPEN with symbolic range 1..2^25-2 (inverted '
                  'ranges included) through a symbolic file number',
          'outside': 'OPEN option parsing; text files (whole-file locks only) beyond the whole-file case'}
ASSUMPTIONS = ['z3 decides the formulas', 'symx models validated per path',
               'lock_set is a SymSet (association list with symbolic equality) injected as "set" '
               'into the lifted diskfiles module']
EG = {'basic.devices.diskfiles': {'set': seqs.sx_set}}
MAXREC = 2 ** 25 - 2


def conflict(a, b):
    """record sets of two locks intersect; a lock is (start, stop) or (None, None)"""
    if a[0] is None or b[0] is None:
        # whole-file lock conflicts with everything that is non-empty (and with another whole-file)
        o = b if a[0] is None else a
        if o[0] is None:
            return True
        return o[0] <= o[1]
    lo = ite(a[0] > b[0], a[0], b[0])
    hi = ite(a[1] < b[1], a[1], b[1])
    return s_and(a[0] <= a[1], b[0] <= b[1], lo <= hi)


def _sym_lock(h, name):
    """a symbolic lock: whole-file or a (possibly inverted) range"""
    whole = h.concretize(h.int(name + '_whole', 0, 1))
    if whole:
        return (None, None)
    return (h.int(name + '_s', 1, MAXREC), h.int(name + '_e', 1, MAXREC))


def _state(h, nfiles, nlocks):
    D = h.P.basic.devices.diskfiles
    locks = D.Locks()
    held = {}
    for n in range(1, nfiles + 1):
        locks.open_file(b'DATA.DAT', n, b'R', b'SHARED', b'RW')
        held[n] = []
        cnt = h.concretize(h.int('n%d_count' % n, 0, nlocks))
        for k in range(cnt):
            lk = _sym_lock(h, 'f%dl%d' % (n, k))
            held[n].append(lk)
    # representation invariant: all held locks pairwise non-conflicting and distinct
    alll = [(n, lk) for n in held for lk in held[n]]
    for i in range(len(alll)):
        for j in range(i + 1, len(alll)):
            h.assume(s_not(conflict(alll[i][1], alll[j][1])))
            a, b = alll[i][1], alll[j][1]
            if a[0] is not None and b[0] is not None:
                h.assume(s_not(s_and(a[0] == b[0], a[1] == b[1])))
    for n in held:
        for lk in held[n]:
            locks._locking_parameters[n].lock_set.add(lk)
    return locks, held


def _held_now(locks):
    return [(n, lk) for n, lp in locks._locking_parameters.items() for lk in lp.lock_set]


def body_lock(h):
    locks, held = _state(h, h.params['files'], h.params['locks'])
    num = h.concretize(h.int('num', 1, h.params['files']))
    req = _sym_lock(h, 'req')
    res = h.call(locks.acquire_record_lock, num, req[0], req[1])
    before = [(n, lk) for n in held for lk in held[n]]
    overlapping = s_or(*[conflict(req, lk) for _, lk in before])
    if res[0] == 'ok':
        h.require('overlapping-lock-refused', s_not(overlapping))
        now = _held_now(locks)
        conds = []
        for i in range(len(now)):
            for j in range(i + 1, len(now)):
                conds.append(s_not(conflict(now[i][1], now[j][1])))
        h.require('held-locks-never-overlap', s_and(*conds))
        mine = [lk for n, lk in now if n == num]
        if req[0] is None:
            h.require('lock-recorded', any(lk[0] is None for lk in mine))
        else:
            h.require('lock-recorded', s_or(*[s_and(lk[0] == req[0], lk[1] == req[1])
                                               for lk in mine if lk[0] is not None]))
    else:
        h.require('error-is-permission-denied', res[0] == 'err' and res[1] == PERMISSION_DENIED)
        h.require('nothing-changed', len(_held_now(locks)) == len(before))
    return [res[0], res[1] if res[0] != 'ok' else None]


def body_access(h):
    """GET/PUT of a record range through one number while others hold locks"""
    locks, held = _state(h, h.params['files'], h.params['locks'])
    num = h.concretize(h.int('num', 1, h.params['files']))
    rec = h.int('rec', 1, MAXREC)
    res = h.call(locks.try_record_access, num, rec, rec, b'RW')
    others = [lk for n in held if n != num for lk in held[n]]
    own = [lk for lk in held[num]]
    blocked = s_or(*[conflict((rec, rec), lk) for lk in others])
    if res[0] == 'ok':
        h.require('access-inside-foreign-lock-refused', s_not(blocked))
    else:
        h.require('error-is-permission-denied', res[0] == 'err' and res[1] == PERMISSION_DENIED)
        h.require('refused-only-for-foreign-lock', blocked)
    return [res[0]]


def body_unlock(h):
    locks, held = _state(h, h.params['files'], h.params['locks'])
    num = h.concretize(h.int('num', 1, h.params['files']))
    req = _sym_lock(h, 'req')
    res = h.call(locks.release_record_lock, num, req[0], req[1])

    def same(a, b):
        if a[0] is None or b[0] is None:
            return a[0] is None and b[0] is None
        return s_and(a[0] == b[0], a[1] == b[1])
    exact = s_or(*[same(req, lk) for lk in held[num]])
    before = sum(len(v) for v in held.values())
    if res[0] == 'ok':
        h.require('unlock-only-exact-range', exact)
        h.require('one-lock-released', len(_held_now(locks)) == before - 1)
    else:
        h.require('error-is-permission-denied', res[0] == 'err' and res[1] == PERMISSION_DENIED)
        h.require('exact-range-accepted', s_not(exact))
        h.require('nothing-released', len(_held_now(locks)) == before)
    return [res[0]]


def body_open(h):
    """a file open for OUTPUT or APPEND cannot be opened again until closed"""
    D = h.P.basic.devices.diskfiles
    locks = D.Locks()
    modes = [b'I', b'O', b'A', b'R']
    lts = [b'', b'SHARED', b'R', b'W', b'RW']
    acs = [b'', b'R', b'W', b'RW']
    m1, m2 = h.choice('m1', modes), h.choice('m2', modes)
    l1, l2 = h.choice('l1', lts), h.choice('l2', lts)
    a1, a2 = h.choice('a1', acs), h.choice('a2', acs)
    r1 = h.call(locks.open_file, b'A:\\DATA.DAT', 1, m1, l1, a1)
    h.require('first-open-ok', r1[0] == 'ok')
    r2 = h.call(locks.open_file, b'data.dat', 2, m2, l2, a2)
    # Reading of "a file open for OUTPUT or APPEND cannot be opened again": OUTPUT/APPEND is
    # exclusive on the side of the *new* open (a file that is open in any mode cannot be opened
    # for OUTPUT or APPEND, in particular not twice for output).  Opening for INPUT/RANDOM a file
    # that another number has open for OUTPUT is allowed by the code (and by GW-BASIC's manual:
    # "a file may be opened for output on only one file number at a time"); see DESIGN.md C26.
    if m2 in (b'O', b'A'):
        h.require('output-append-exclusive', r2[0] == 'err' and r2[1] == 55)
    h.require('no-foreign-exception', r2[0] != 'exc')
    # after closing the first the second open must succeed
    if r2[0] != 'ok':
        locks.close_file(1)
        r3 = h.call(locks.open_file, b'data.dat', 2, m2, l2, a2)
        h.require('reopen-after-close', r3[0] == 'ok')
    return [r1[0], r2[0]]


def cases(tier):
    cs = []
    combos = [(2, 1)] if tier != 'thorough' else [(2, 1), (2, 2), (3, 1)]
    for f, l in combos:
        p = {'files': f, 'locks': l}
        tag = '-%df%dl' % (f, l)
        cs += [Case('lock' + tag, body_lock, params=p, extra_globals=EG, timeout_s=3000),
               Case('access' + tag, body_access, params=p, extra_globals=EG, timeout_s=3000),
               Case('unlock' + tag, body_unlock, params=p, extra_globals=EG, timeout_s=3000)]
    cs.append(Case('open-twice', body_open, extra_globals=EG, max_fanout=100))
    return cs
