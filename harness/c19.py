"""C19 -- Structured control flow follows its reference semantics (program templates).

Real code: the whole interpreter (Implementation, Interpreter.for_/next_/iterate_loop/while_/wend_/
gosub_/return_/on_jump_/goto_, statement parser, expression parser, tokeniser, Scalars, values)
executing a concrete program template whose integer variables hold symbolic values.
"""
from symx.runner import Case
from .common import *
from . import session

ORACLE = ('reference trace functions written in the harness: FOR runs while the counter has not passed '
          'the end in the direction of the step (zero times if the start is past), the counter after the '
          'loop is the first value that passed, Overflow exactly when the increment leaves the integer '
          'range; ON n selects the n-th target, falls through for 0 and beyond the list, Illegal function '
          'call for n < 0 or n > 255; WHILE repeats while the condition is non-zero; RETURN resumes '
          'after the calling statement')
BOUNDS = {'programs': 'the fixed templates listed as cases (not "all programs"): single and nested integer '
                      'FOR loops, ON n GOTO / GOSUB with 3 targets, WHILE counter loops (nested, left by GOTO), GOSUB nesting, '
                      'IF/THEN/ELSE two and three deep, GOSUB / ON GOSUB inside FOR, RETURN dropping a FOR',
          'values': 'every 16-bit value of the start / end / step / selector variables, restricted by an '
                    'assumption to at most 2 (thorough 3) loop iterations (4 for WHILE); step 0 excluded',
          'outside': 'single-precision counters, arbitrary programs, mismatched NEXT/WEND/RETURN beyond the '
                     'listed templates'}
ASSUMPTIONS = ['z3 decides the formulas', 'symx models validated per path',
               'console and event queues are the real objects with no streams attached (output_streams=None)']

K = 3


def _setup(h, program, names):
    impl = session.mk_impl(h)
    for line in program:
        impl.execute(line)
    impl.execute(b':'.join(n + b'=0' for n in names))
    return impl


def _geti(impl, name):
    return s16(session.peek_raw(impl, name))


def body_for(h):
    prog = [b'10 FOR I%=A% TO B% STEP C%: N%=N%+1: NEXT: E%=1']
    impl = _setup(h, prog, [b'A%', b'B%', b'C%', b'N%', b'I%', b'E%'])
    a, b, c = h.bytes('a', 2), h.bytes('b', 2), h.bytes('c', 2)
    A, B, C = s16(a), s16(b), s16(c)
    h.assume(C != 0)
    h.assume(C > 0 if h.params['up'] else C < 0)
    K = h.params['k']
    up = C > 0
    passed = lambda v: ite(up, v > B, v < B)
    # reference, unrolled K times.  Zero-trip loops: the body must not run; what the counter holds
    # afterwards is not stated by the property -- the code steps it once (start + step, as the
    # NEXT it jumps to would), which may overflow; both are accepted here (DESIGN.md 6.3)
    empty = passed(A)
    n, i = 0, A
    done = False
    ovf = False
    first = A + C
    e_ovf = s_and(empty, s_or(first > 32767, first < -32768))
    i = ite(s_and(empty, s_not(e_ovf)), first, i)
    done = empty
    ovf = e_ovf
    for k in range(K):
        active = s_and(s_not(done), s_not(ovf))
        n = ite(active, n + 1, n)
        nxt = i + C
        o = s_or(nxt > 32767, nxt < -32768)
        ovf = s_or(ovf, s_and(active, o))
        i = ite(s_and(active, s_not(o)), nxt, i)
        done = s_or(done, s_and(active, s_not(o), passed(nxt)))
    h.assume(s_or(done, ovf))          # at most K iterations
    session.poke_int(h, impl, b'A%', a)
    session.poke_int(h, impl, b'B%', b)
    session.poke_int(h, impl, b'C%', c)
    impl.execute(b'GOTO 10')
    N, I, E = _geti(impl, b'N%'), _geti(impl, b'I%'), _geti(impl, b'E%')
    err = impl.interpreter.error_num
    h.require('body-count', N == n)
    h.require('counter-after-loop', I == i)
    h.require('overflow-exactly-when-leaving-range', s_iff(ovf, err == OVERFLOW))
    h.require('continues-after-loop', s_iff(E == 1, s_not(ovf)))
    h.require('no-other-error', s_or(err == 0, err == OVERFLOW))
    return [N, I, E, err]


def body_nested(h):
    if h.params.get('joint'):
        # both loops closed by one NEXT J%,I% (no statement between the two ends)
        prog = [b'10 FOR I%=1 TO A%: M%=M%+1: FOR J%=B% TO 1 STEP -1: N%=N%+1: NEXT J%,I%: E%=1']
    else:
        prog = [b'10 FOR I%=1 TO A%: FOR J%=B% TO 1 STEP -1: N%=N%+1: NEXT J%: M%=M%+1: NEXT I%: E%=1']
    impl = _setup(h, prog, [b'A%', b'B%', b'N%', b'M%', b'I%', b'J%', b'E%'])
    a, b = h.bytes('a', 2), h.bytes('b', 2)
    A, B = s16(a), s16(b)
    h.assume(s_and(A <= 2, B <= 2, B >= -32767))     # (B = -32768: zero-trip overflow corner, see for-int)
    session.poke_int(h, impl, b'A%', a)
    session.poke_int(h, impl, b'B%', b)
    impl.execute(b'GOTO 10')
    outer = ite(A < 1, 0, A)
    inner = ite(B < 1, 0, B)
    h.require('outer-count', _geti(impl, b'M%') == outer)
    h.require('inner-count', _geti(impl, b'N%') == outer * inner)
    h.require('finished', s_and(_geti(impl, b'E%') == 1, impl.interpreter.error_num == 0))
    return [_geti(impl, b'M%'), _geti(impl, b'N%')]


def body_on(h):
    kind = h.params['kind']
    if kind == 'goto':
        prog = [b'10 ON S% GOTO 20,30,40: R%=9: END', b'20 R%=1: END', b'30 R%=2: END', b'40 R%=3: END']
    else:
        prog = [b'10 ON S% GOSUB 20,30,40: T%=R%+10: END', b'20 R%=1: RETURN', b'30 R%=2: RETURN',
                b'40 R%=3: RETURN']
    impl = _setup(h, prog, [b'S%', b'R%', b'T%'])
    s = h.bytes('s', 2)
    S = s16(s)
    session.poke_int(h, impl, b'S%', s)
    impl.execute(b'GOTO 10')
    R, T = _geti(impl, b'R%'), _geti(impl, b'T%')
    err = impl.interpreter.error_num
    bad = s_or(S < 0, S > 255)
    sel = s_and(S >= 1, S <= 3)
    h.require('ifc-outside-0..255', s_iff(bad, err == IFC))
    h.require('no-other-error', s_or(err == 0, err == IFC))
    if kind == 'goto':
        h.require('selects-nth-target-or-falls-through', R == ite(bad, 0, ite(sel, S, 9)))
    else:
        h.require('selects-nth-target', R == ite(sel, S, 0))
        h.require('returns-after-calling-statement', T == ite(bad, 0, ite(sel, S + 10, 10)))
    return [R, T, err]


def body_while(h):
    prog = [b'10 WHILE A%<>B%: A%=A%+1: N%=N%+1: WEND: E%=1']
    impl = _setup(h, prog, [b'A%', b'B%', b'N%', b'E%'])
    a, b = h.bytes('a', 2), h.bytes('b', 2)
    A, B = s16(a), s16(b)
    h.assume(s_and(B - A >= 0, B - A <= 4))
    session.poke_int(h, impl, b'A%', a)
    session.poke_int(h, impl, b'B%', b)
    impl.execute(b'GOTO 10')
    h.require('iterations', _geti(impl, b'N%') == B - A)
    h.require('ends-at-bound', _geti(impl, b'A%') == B)
    h.require('finished', s_and(_geti(impl, b'E%') == 1, impl.interpreter.error_num == 0))
    return [_geti(impl, b'N%')]


def body_gosub(h):
    """nested GOSUBs with a symbolic early RETURN"""
    prog = [b'10 GOSUB 100: T%=T%+1: END',
            b'100 D%=1: IF X%=1 THEN RETURN', b'110 GOSUB 200: T%=T%+10: RETURN',
            b'200 D%=2: IF X%=2 THEN RETURN', b'210 GOSUB 300: T%=T%+100: RETURN',
            b'300 D%=3: RETURN']
    impl = _setup(h, prog, [b'X%', b'T%', b'D%'])
    x = h.bytes('x', 2)
    X = s16(x)
    session.poke_int(h, impl, b'X%', x)
    impl.execute(b'GOTO 10')
    T, D = _geti(impl, b'T%'), _geti(impl, b'D%')
    h.require('return-resumes-after-call', T == ite(X == 1, 1, ite(X == 2, 11, 111)))
    h.require('depth-reached', D == ite(X == 1, 1, ite(X == 2, 2, 3)))
    h.require('no-error', impl.interpreter.error_num == 0)
    return [T, D]


def body_mismatch(h):
    which = h.params['which']
    progs = {'next': ([b'10 NEXT'], 1), 'wend': ([b'10 WEND'], 30), 'return': ([b'10 RETURN'], 3),
             'for': ([b'10 FOR I%=1 TO 2'], 26), 'while': ([b'10 WHILE 1'], 29)}
    prog, code = progs[which]
    impl = _setup(h, prog, [b'Z%'])
    z = h.bytes('z', 2)
    session.poke_int(h, impl, b'Z%', z)
    impl.execute(b'GOTO 10')
    h.require('specific-error', impl.interpreter.error_num == code)
    return [impl.interpreter.error_num]


def cases(tier):
    k = 3 if tier == 'thorough' else 2
    cs = [Case('for-int-up', body_for, params={'up': True, 'k': k}, timeout_s=3000, max_paths=400000),
          Case('for-int-down', body_for, params={'up': False, 'k': k}, timeout_s=3000, max_paths=400000),
          Case('for-nested', body_nested, timeout_s=3000),
          Case('for-nested-joint-next', body_nested, params={'joint': True}, timeout_s=3000),
          Case('on-goto', body_on, params={'kind': 'goto'}),
          Case('on-gosub', body_on, params={'kind': 'gosub'}),
          Case('while', body_while), Case('gosub-nesting', body_gosub)]
    for w in ('next', 'wend', 'return', 'for', 'while'):
        cs.append(Case('mismatch-' + w, body_mismatch, params={'which': w}))
    return cs + cases_more()


def body_if(h):
    """IF / THEN / ELSE: nearest-IF binding of ELSE, statement lists in both branches, line-number targets"""
    which = h.params['which']
    if which == 'dangling':
        prog = [b'10 IF A% THEN IF B% THEN R%=1 ELSE R%=2 ELSE R%=3', b'20 E%=1']
        ref = lambda A, B: (ite(A != 0, ite(B != 0, 1, 2), 3), 0)
    elif which == 'lists':
        prog = [b'10 IF A%>B% THEN R%=1: S%=1 ELSE R%=2: S%=2', b'20 E%=1']
        ref = lambda A, B: (ite(A > B, 1, 2), ite(A > B, 1, 2))
    elif which == 'targets':
        prog = [b'10 IF A%=B% THEN 40 ELSE 30', b'20 R%=9: E%=1: END', b'30 R%=2: S%=7: E%=1: END',
                b'40 R%=1: E%=1: END']
        ref = lambda A, B: (ite(A == B, 1, 2), ite(A == B, 0, 7))
    elif which == 'goto-else':
        prog = [b'10 IF A%<B% GOTO 40 ELSE S%=5: R%=2', b'20 E%=1: END', b'40 R%=1: E%=1: END']
        ref = lambda A, B: (ite(A < B, 1, 2), ite(A < B, 0, 5))
    else:
        # no ELSE: a false condition skips the rest of the line, including later statements
        prog = [b'10 IF A%<=B% THEN R%=1: S%=1', b'20 E%=1']
        ref = lambda A, B: (ite(A <= B, 1, 0), ite(A <= B, 1, 0))
    impl = _setup(h, prog, [b'A%', b'B%', b'R%', b'S%', b'E%'])
    a, b = h.bytes('a', 2), h.bytes('b', 2)
    A, B = s16(a), s16(b)
    session.poke_int(h, impl, b'A%', a)
    session.poke_int(h, impl, b'B%', b)
    impl.execute(b'GOTO 10')
    r, s = ref(A, B)
    R, S, E = _geti(impl, b'R%'), _geti(impl, b'S%'), _geti(impl, b'E%')
    h.require('branch-taken', R == r)
    h.require('statement-list-of-the-branch', S == s)
    h.require('continues-on-next-line', s_and(E == 1, impl.interpreter.error_num == 0))
    return [R, S, E]


def body_while_nested(h):
    """nested WHILE; the inner loop may run zero times (WEND matching by scanning)"""
    prog = [b'10 WHILE A%<>B%: A%=A%+1: WHILE C%<>D%: C%=C%+1: N%=N%+1: WEND: M%=M%+1: WEND: E%=1']
    impl = _setup(h, prog, [b'A%', b'B%', b'C%', b'D%', b'N%', b'M%', b'E%'])
    a, b = h.bytes('a', 2), h.bytes('b', 2)
    A, B = s16(a), s16(b)
    C, D = 0, h.params['inner']            # (symbolic inner bounds did not finish in 4 minutes: concrete)
    h.assume(s_and(B - A >= 0, B - A <= 2))
    for nm, v in ((b'A%', a), (b'B%', b)):
        session.poke_int(h, impl, nm, v)
    impl.execute(b'D%%=%d' % D)
    impl.execute(b'GOTO 10')
    outer = B - A
    inner = ite(outer > 0, D - C, 0)       # the inner counter is not reset: later passes skip the inner loop
    h.require('outer-count', _geti(impl, b'M%') == outer)
    h.require('inner-count', _geti(impl, b'N%') == inner)
    h.require('finished', s_and(_geti(impl, b'E%') == 1, impl.interpreter.error_num == 0))
    return [_geti(impl, b'M%'), _geti(impl, b'N%')]


def body_for_gosub(h):
    """GOSUB from inside a FOR body; RETURN resumes inside the loop at any iteration"""
    which = h.params['which']
    if which == 'call-in-loop':
        prog = [b'10 FOR I%=1 TO A%: GOSUB 100: M%=M%+1: NEXT: E%=1: END', b'100 N%=N%+I%: RETURN']
    elif which == 'on-gosub-in-loop':
        prog = [b'10 FOR I%=1 TO A%: ON I% GOSUB 100,200: M%=M%+1: NEXT: E%=1: END',
                b'100 N%=N%+1: RETURN', b'200 N%=N%+10: RETURN']
    else:
        # a FOR opened inside a subroutine is dropped by RETURN: the NEXT after the call has no FOR
        prog = [b'10 GOSUB 100: E%=1: IF A%>0 THEN NEXT', b'20 E%=2: END', b'100 FOR I%=1 TO 5: RETURN: NEXT']
    impl = _setup(h, prog, [b'A%', b'N%', b'M%', b'I%', b'E%'])
    a = h.bytes('a', 2)
    A = s16(a)
    h.assume(A <= 3)
    session.poke_int(h, impl, b'A%', a)
    impl.execute(b'GOTO 10')
    N, M, E = _geti(impl, b'N%'), _geti(impl, b'M%'), _geti(impl, b'E%')
    err = impl.interpreter.error_num
    cnt = ite(A < 1, 0, A)
    if which == 'call-in-loop':
        h.require('body-count', M == cnt)
        h.require('subroutine-sees-counter', N == ite(cnt == 0, 0, ite(cnt == 1, 1, ite(cnt == 2, 3, 6))))
        h.require('finished', s_and(E == 1, err == 0))
    elif which == 'on-gosub-in-loop':
        h.require('body-count', M == cnt)
        h.require('nth-target-per-iteration', N == ite(cnt == 0, 0, ite(cnt == 1, 1, 11)))
        h.require('finished', s_and(E == 1, err == 0))
    else:
        h.require('next-without-for-after-return', s_iff(A > 0, err == 1))
        h.require('no-other-error', s_or(err == 0, err == 1))
        h.require('position', E == ite(A > 0, 1, 2))
    return [N, M, E, err]


def body_for_reentry(h):
    """leaving a FOR body with GOTO and starting a new FOR on the same counter"""
    prog = [b'10 FOR I%=1 TO 3: IF I%=X% THEN 30', b'20 NEXT: R%=1',
            b'30 FOR I%=1 TO 2: N%=N%+1: NEXT: E%=1']
    impl = _setup(h, prog, [b'X%', b'N%', b'R%', b'I%', b'E%'])
    x = h.bytes('x', 2)
    X = s16(x)
    session.poke_int(h, impl, b'X%', x)
    impl.execute(b'GOTO 10')
    jumped = s_and(X >= 1, X <= 3)
    h.require('second-loop-runs-twice', _geti(impl, b'N%') == 2)
    h.require('first-loop-finished-unless-left', _geti(impl, b'R%') == ite(jumped, 0, 1))
    h.require('counter-after', _geti(impl, b'I%') == 3)
    h.require('finished', s_and(_geti(impl, b'E%') == 1, impl.interpreter.error_num == 0))
    return [_geti(impl, b'N%'), _geti(impl, b'R%')]


def cases_more():
    cs = [Case('if-' + w, body_if, params={'which': w})
          for w in ('dangling', 'lists', 'targets', 'goto-else', 'no-else')]
    cs += [Case('while-nested-inner%d' % i, body_while_nested, params={'inner': i}, timeout_s=3000) for i in (0, 2)]
    cs += [Case('for-' + w, body_for_gosub, params={'which': w}, timeout_s=3000)
           for w in ('call-in-loop', 'on-gosub-in-loop', 'return-drops-for')]
    cs.append(Case('for-reentry-after-goto', body_for_reentry))
    cs += [Case('if-three-deep', body_if3), Case('if-three-deep-targets', body_if3, params={'targets': True}),
           Case('while-jump-out-of-two', body_while_jump_out, timeout_s=3000)]
    return cs


def body_if3(h):
    """three IFs on one line, each with its ELSE: every ELSE belongs to the nearest open IF"""
    prog = [b'10 IF A% THEN IF B% THEN IF C% THEN R%=1 ELSE R%=2 ELSE R%=3 ELSE R%=4', b'20 E%=1']
    if h.params.get('targets'):
        prog = [b'10 IF A% THEN IF B% THEN IF C% THEN 100 ELSE 200 ELSE 300 ELSE 400', b'20 R%=9: E%=1: END',
                b'100 R%=1: E%=1: END', b'200 R%=2: E%=1: END', b'300 R%=3: E%=1: END', b'400 R%=4: E%=1: END']
    impl = _setup(h, prog, [b'A%', b'B%', b'C%', b'R%', b'E%'])
    a, b, c = h.bytes('a', 2), h.bytes('b', 2), h.bytes('c', 2)
    A, B, C = s16(a), s16(b), s16(c)
    for nm, v in ((b'A%', a), (b'B%', b), (b'C%', c)):
        h.assume(s_and(v[1] == 0, v[0] <= 1))      # truth values 0 / 1 (other non-zero values: if-dangling)
        session.poke_int(h, impl, nm, v)
    impl.execute(b'GOTO 10')
    h.require('branch-taken', _geti(impl, b'R%') == ite(A != 0, ite(B != 0, ite(C != 0, 1, 2), 3), 4))
    h.require('continues', s_and(_geti(impl, b'E%') == 1, impl.interpreter.error_num == 0))
    return [_geti(impl, b'R%')]


def body_while_jump_out(h):
    """GOTO out of two nested inner WHILE loops into the body of the enclosing one; its WEND tests its own
    condition"""
    prog = [b'10 WHILE A%<>B%: A%=A%+1: M%=M%+1', b'20 WHILE K%=0: K%=1: WHILE 1: GOTO 40', b'30 WEND: WEND',
            b'40 N%=N%+1: WEND: E%=1']
    impl = _setup(h, prog, [b'A%', b'B%', b'N%', b'M%', b'E%', b'K%'])
    a, b = h.bytes('a', 2), h.bytes('b', 2)
    A, B = s16(a), s16(b)
    h.assume(s_and(B - A >= 0, B - A <= 2))
    session.poke_int(h, impl, b'A%', a)
    session.poke_int(h, impl, b'B%', b)
    impl.execute(b'GOTO 10')
    h.require('outer-body-count', _geti(impl, b'M%') == B - A)
    h.require('tail-of-outer-body-count', _geti(impl, b'N%') == B - A)
    h.require('ends-at-bound', _geti(impl, b'A%') == B)
    h.require('finished', s_and(_geti(impl, b'E%') == 1, impl.interpreter.error_num == 0))
    return [_geti(impl, b'M%'), _geti(impl, b'N%')]
