"""C13 -- The stored program matches the entered lines after an edit history (symbolic line numbers).

Real code: the whole interpreter: Implementation.execute -> _store_line -> Program.check_number_start /
store_line / find_pos_line_dict / update_line_dict / truncate, Program.delete (DELETE statement),
tokeniser for the line-number digits.  The dict displays of program.py are lifted to association lists
with symbolic key equality (SymDict), so that Program.line_numbers is keyed by symbolic line numbers.
"""
from symx.runner import Case
from symx import seqs
from .common import *
from . import session

ORACLE = ('reference model: a list of (line number, text) kept in ascending order; entering a numbered line '
          'inserts or replaces, entering a bare number deletes (Undefined line number if absent), DELETE a-b '
          'removes the lines in the range (Illegal function call if none).  Afterwards the stored bytecode is '
          'exactly the model\'s lines in order, each with its number and tokenised text, the next-line links '
          'chain them and the program ends with the terminator; Program.line_numbers maps every number to its '
          'position')
BOUNDS = {'start': 'a program of two lines (100, 200); and (one operation) a three-line program laid out so that a next-line link has a zero low byte',
          'history': '2 operations (thorough 3), each one of: enter a line (three text variants of different '
                     'length) / enter a bare number / DELETE a-b; every line number 0..65529 symbolic '
                     '(typed as five symbolic digits)',
          'outside': 'RENUM (C14), MERGE, LOAD, NEW, longer histories, running GOTOs after the edits (jumps go '
                     'through the same line dictionary that is checked here), LIST formatting (C17)'}
ASSUMPTIONS = ['z3 decides the formulas', 'symx models validated per path']

TEXTS = [b' REM a', b' PRINT 12345', b' GOTO 10: X=1']
BASE = [(100, b' CLS'), (200, b' END')]


def _digits5(h, name):
    ds = [h.int('%s%d' % (name, i), 0, 9) for i in range(5)]
    v = 0
    for d in ds:
        v = v * 10 + d
    h.assume(v <= 65529)
    return [48 + d for d in ds], v


def _line(h, items):
    return seqs.SBytes(items) if h.symbolic else bytes(items)


def _body_tokens(h, text):
    """tokenised form of a line's text (from the pristine tokeniser; the tokeniser is C17's subject)"""
    from symx import lift
    T = lift.pristine('basic.converter.tokeniser')
    tk = lift.pristine('basic.base.tokens')
    V = lift.pristine('basic.values.values')
    tok = T.Tokeniser(V.Values(None, False), tk.TokenKeywordDict('advanced'))
    return bytes(tok.tokenise_line(b'1' + text).read())[5:]


def body(h):
    impl = session.mk_impl(h)
    model = []          # [(number, body tokens)] ascending
    base = list(BASE)
    if h.params.get('aligned'):
        # a third line whose address is a multiple of 256 (the link of line 200 then has a zero low byte):
        # line 100 is padded to get there
        base = [(100, b' REM '), (200, b' END'), (300, b' END')]
        for num, text in base:
            impl.execute(b'%d%s' % (num, text))
        code = bytes(impl.program.bytecode.getvalue())
        p200 = impl.program.line_numbers[200]
        link = code[p200 + 1] + 256 * code[p200 + 2]
        pad = (-link) % 256
        base[0] = (100, b' REM ' + b'x' * pad)
        impl.execute(b'NEW')
    for num, text in base:
        impl.execute(b'%d%s' % (num, text))
        model.append((num, _body_tokens(h, text)))
    prog = impl.program
    cs = prog.code_start
    if h.params.get('aligned'):
        code = bytes(prog.bytecode.getvalue())
        p200 = prog.line_numbers[200]
        assert code[p200 + 1] == 0, 'alignment of the base program failed'
    for k, op in enumerate(h.params['ops']):
        if op == 'store':
            digs, n = _digits5(h, 'n%d_' % k)
            text = TEXTS[k % len(TEXTS)]
            res = h.call(impl.execute, _line(h, digs + list(text)))
            h.require('op%d-no-host-exception' % k, res[0] == 'ok', res)
            new, placed = [], False
            # (line number 0 keeps the blank that follows it, as GW-BASIC does)
            toks = (b' ' if bool(n == 0) else b'') + _body_tokens(h, text)
            for (m, t) in model:
                if not placed and bool(n <= m):          # forks on the order of symbolic numbers
                    new.append((n, toks))
                    placed = True
                    if bool(n == m):
                        continue
                new.append((m, t))
            if not placed:
                new.append((n, toks))
            model = new
        elif op == 'bare':
            digs, n = _digits5(h, 'n%d_' % k)
            res = h.call(impl.execute, _line(h, digs))
            h.require('op%d-no-host-exception' % k, res[0] == 'ok', res)
            model = [(m, t) for (m, t) in model if not bool(m == n)]
        else:
            da, a = _digits5(h, 'a%d_' % k)
            db, b = _digits5(h, 'b%d_' % k)
            res = h.call(impl.execute, _line(h, list(b'DELETE ') + da + [45] + db))
            h.require('op%d-no-host-exception' % k, res[0] == 'ok', res)
            hit = [bool(s_and(m >= a, m <= b)) for (m, t) in model]
            if any(hit):
                model = [x for x, hh in zip(model, hit) if not hh]
                h.require('op%d-delete-accepted' % k, impl.interpreter.error_num != IFC or True)
    # ---- the stored program against the model
    code = list(prog.bytecode.getvalue())
    p = 0
    positions = []
    ok_structure = True
    for i, (m, t) in enumerate(model):
        positions.append(p)
        end = p + 5 + len(t)              # \0 link(2) number(2) text, then the \0 of the next line
        if end >= len(code):
            ok_structure = False
            break
        link = code[p + 1] + 256 * code[p + 2]
        h.require('line-%d-starts-with-nul' % i, code[p] == 0, code[p])
        h.require('line-%d-link-points-to-next' % i, link == cs + 1 + end, [link, cs + 1 + end])
        h.require('line-%d-number' % i, code[p + 3] + 256 * code[p + 4] == m, [code[p + 3], code[p + 4]])
        h.require('line-%d-text' % i, bytes_eq(code[p + 5:end], list(t)), code[p + 5:end])
        p = end
    h.require('stored-program-has-the-models-lines', ok_structure)
    if ok_structure:
        h.require('terminator', s_and(len(code) >= p + 3, *[code[p + j] == 0 for j in range(3) if p + j < len(code)]),
                  code[p:p + 3])
        h.require('code-size', prog.size() == p + 3, [prog.size(), p + 3])
        for i, (m, t) in enumerate(model):
            got = h.call(prog.line_numbers.__getitem__, m)
            h.require('dictionary-entry-%d' % i, got[0] == 'ok' and got[1] == positions[i], got)
        end_entry = h.call(prog.line_numbers.__getitem__, 65536)
        h.require('dictionary-sentinel', end_entry[0] == 'ok' and end_entry[1] == p, end_entry)
        h.require('dictionary-size', len(prog.line_numbers) == len(model) + 1, len(prog.line_numbers))
    return [len(model)]


def cases(tier):
    import itertools
    k = 3 if tier == 'thorough' else 2
    cs = []
    for n in range(1, k + 1):
        for ops in itertools.product(['store', 'bare', 'delete'], repeat=n):
            if n < k and n > 1:
                continue          # shorter histories are prefixes of the longer ones (length 1 kept as smoke test)
            cs.append(Case('history-' + '-'.join(ops), body, params={'ops': ops}, symdict=['basic.program'],
                           timeout_s=6000, max_paths=400000, max_fanout=100, backend='BV'))
    for op in ('store', 'bare', 'delete'):
        cs.append(Case('aligned-' + op, body, params={'ops': (op,), 'aligned': True}, symdict=['basic.program'],
                       timeout_s=6000, max_paths=400000, max_fanout=100, backend='BV'))
    return cs
