"""C03 -- Numeric conversions and binary encodings are exact and consistent.

Real code: values.cint_/fix_/int_/csng_/cdbl_/mki_/mks_/mkd_/cvi_/cvs_/cvd_/hex_/oct_,
Values.from_repr, Float.to_int/to_int_truncate/itrunc/ifloor/_to_int_den/from_int,
Double.from_single/to_single, Float._normalise, Integer.to_hex/to_oct/from_hex/from_oct.
"""
from symx.runner import Case
from .common import *

ORACLE = ('exact value x = (-1)^s * M * 2^(E-184); CINT = sign * floor(|x| + 1/2), FIX = sign * '
          'floor|x|, INT = floor(x), all by shifting the 56-bit mantissa; CSNG result must be one of '
          'the two neighbouring singles and the nearer one unless the dropped 32 bits are within '
          '2^24 (=1/256 ulp) of the halfway pattern')
BOUNDS = {'operands': 'all 2^32 single and 2^64 double bit patterns, all 65536 integers; CVx of '
                      'strings of length 0..size+2', 'outside': 'values printed through PRINT'}
ASSUMPTIONS = ['z3/cvc5 decide the formulas', 'symx models validated per path',
               'StringSpace runs over a stub memory (fixed layout, check_free never fails)']


def body_round(h):
    t = h.params['type']
    fn = h.params['fn']
    a = h.bytes('a', TYPES[t])
    vals = mk_values(h)
    V = h.P.basic.values.values
    A = mk_num(h, vals, a)
    res = h.call(getattr(V, fn), iter([A]))
    x = FVal.of_raw(a)
    obs = [res[0], raw_of(res[1]) if res[0] == 'ok' else res[1]]
    h.require('operand-unchanged', bytes_eq(raw_of(A), a))
    if t == 'i':
        h.require('integer-identity', res[0] == 'ok' and bytes_eq(raw_of(res[1]), a))
        return obs
    big = x.E > 184          # |x| >= 2^56, an integer already
    if fn == 'cint_':
        # magnitudes from 2^16 on always overflow
        huge = s_and(s_not(x.zero), x.E > 128 + 17)
        Es = ite(x.E > 184, 184, x.E)
        xs = FVal(x.zero, x.neg, Es, x.M)
        _, _, rounded = int_part(xs)
        v = ite(x.zero, 0, ite(x.neg, -rounded, rounded))
        inrange = s_and(s_not(huge), v >= -32768, v <= 32767)
        if res[0] == 'ok':
            h.require('cint-type', type(res[1]).__name__ == 'Integer')
            h.require('cint-no-missed-overflow', inrange)
            h.require('cint-half-away-from-zero', s16(raw_of(res[1])) == v)
        else:
            h.require('cint-error-is-overflow', res[0] == 'err' and res[1] == OVERFLOW)
            h.require('cint-overflow-justified', s_not(inrange))
        return obs
    # FIX / INT return a float of the same type
    if res[0] != 'ok':
        h.require(fn + '-no-error', False)
        return obs
    r = raw_of(res[1])
    h.require(fn + '-type', len(r) == len(a))
    R = FVal.of_raw(r)
    Es = ite(x.E > 184, 184, x.E)
    ipart, frac, _ = int_part(FVal(x.zero, x.neg, Es, x.M))
    if fn == 'fix_':
        n = ipart
    else:
        n = ite(s_and(x.neg, frac), ipart + 1, ipart)
    expect = ite(x.zero, R.zero, ite(big, f_eq(R, x), fval_is_int(R, x.neg, n)))
    h.require(fn + '-exact', expect)
    return obs


def body_mkcv(h):
    t = h.params['type']
    n = TYPES[t]
    vals = mk_values_s(h)
    V = h.P.basic.values.values
    mk = {'i': V.mki_, 's': V.mks_, 'd': V.mkd_}[t]
    cv = {'i': V.cvi_, 's': V.cvs_, 'd': V.cvd_}[t]
    a = h.bytes('a', n)
    A = mk_num(h, vals, a)
    res = h.call(mk, iter([A]))
    obs = []
    if res[0] == 'ok' and type(res[1]).__name__ == 'String':
        sv = res[1].to_str()
        obs.append(list(sv))
        h.require('mk-returns-stored-bytes', bytes_eq(list(sv), a))
    else:
        h.require('mk-no-error', False)
    # CVx of strings of every length 0..n+2
    for ln in range(0, n + 3):
        sb = h.bytes('s%d' % ln, ln)
        S = mk_str(h, vals, sb)
        r = h.call(cv, iter([S]))
        if ln < n:
            h.require('cv-short-string-ifc-%d' % ln, r[0] == 'err' and r[1] == IFC)
            obs.append([r[0], r[1] if r[0] != 'ok' else 'value'])
        else:
            ok = r[0] == 'ok' and len(raw_of(r[1])) == n
            h.require('cv-encoding-is-first-bytes-%d' % ln, ok and bytes_eq(raw_of(r[1]), list(sb)[:n]))
            obs.append(raw_of(r[1]) if ok else [r[0]])
    return obs


def body_s2d(h):
    a = h.bytes('a', 4)
    vals = mk_values(h)
    V = h.P.basic.values.values
    res = h.call(V.cdbl_, iter([mk_num(h, vals, a)]))
    if res[0] != 'ok':
        h.require('cdbl-no-error', False)
        return [res[0]]
    r = raw_of(res[1])
    h.require('cdbl-type', len(r) == 8)
    h.require('cdbl-exact', f_eq(FVal.of_raw(r), FVal.of_raw(a)))
    return r


def body_d2s(h):
    a = h.bytes('a', 8)
    vals = mk_values(h)
    V = h.P.basic.values.values
    res = h.call(V.csng_, iter([mk_num(h, vals, a)]))
    x = FVal.of_raw(a)
    hi = x.M >> 32                 # 24-bit mantissa of the floor neighbour
    lo = x.M & 0xffffffff          # dropped bits
    if res[0] != 'ok':
        # the only legitimate error: rounding up past the largest single
        h.require('csng-error-is-overflow', res[0] == 'err' and res[1] == OVERFLOW)
        h.require('csng-overflow-justified', s_and(s_not(x.zero), x.E == 255, hi == 0xffffff,
                                                   lo >= 0x80000000 - 0x1000000))
        return [res[0], res[1]]
    r = raw_of(res[1])
    h.require('csng-type', len(r) == 4)
    R = FVal.of_raw(r)
    Rm = R.M >> 32
    is_floor = s_and(s_not(R.zero), s_iff(R.neg, x.neg), R.E == x.E, Rm == hi)
    carry = (hi == 0xffffff)
    is_ceil = s_and(s_not(R.zero), s_iff(R.neg, x.neg),
                    ite(carry, s_and(R.E == x.E + 1, Rm == 0x800000), s_and(R.E == x.E, Rm == hi + 1)))
    exact = (lo == 0)
    h.require('csng-zero', s_implies(x.zero, R.zero))
    h.require('csng-neighbour', s_or(x.zero, is_floor, s_and(is_ceil, s_not(exact))))
    half = 0x80000000
    tol = 0x1000000            # 1/256 of a unit in the last place of the single
    h.require('csng-nearer-below-half', s_or(x.zero, s_not(lo < half - tol), is_floor))
    h.require('csng-nearer-above-half', s_or(x.zero, s_not(lo > half + tol), is_ceil))
    return r


def body_hexoct(h):
    which = h.params['which']
    a = h.bytes('a', 2)
    vals = mk_values_s(h)
    V = h.P.basic.values.values
    A = mk_num(h, vals, a)
    res = h.call(V.hex_ if which == 'hex' else V.oct_, iter([A]))
    if res[0] != 'ok' or type(res[1]).__name__ != 'String':
        h.require('no-error', False)
        return [res[0]]
    text = res[1].to_str()
    prefix = b'&H' if which == 'hex' else b'&O'
    back = h.call(vals.from_repr, prefix + text, False)
    ok = back[0] == 'ok' and type(back[1]).__name__ == 'Integer'
    h.require('reread-same-integer', ok and bytes_eq(raw_of(back[1]), a))
    # the digits themselves: value of the text in that base equals the unsigned pattern
    base = 16 if which == 'hex' else 8
    val = 0
    digs_ok = True
    for c in list(text):
        d = ite(c <= 57, c - 48, c - 55)
        digs_ok = s_and(digs_ok, s_or(s_and(c >= 48, c <= (57 if base == 16 else 55)),
                                      s_and(base == 16, c >= 65, c <= 70)))
        val = val * base + d
    h.require('digits-valid', digs_ok)
    h.require('digits-value', val == u16(a))
    h.require('no-leading-zero', s_or(len(text) == 1, list(text)[0] != 48))
    if which == 'oct':
        back2 = h.call(vals.from_repr, b'&' + text, False)
        h.require('reread-short-prefix', back2[0] == 'ok' and bytes_eq(raw_of(back2[1]), a))
    return [list(text), raw_of(back[1]) if ok else None]


def cases(tier):
    cs = []
    for fn in ('cint_', 'fix_', 'int_'):
        for t in 'isd':
            cs.append(Case('%s-%s' % (fn.rstrip('_'), t), body_round, params={'type': t, 'fn': fn},
                           timeout_s=1500))
    for t in 'isd':
        cs.append(Case('mkcv-' + t, body_mkcv, params={'type': t}))
    cs.append(Case('cdbl-single', body_s2d))
    cs.append(Case('csng-double', body_d2s))
    cs.append(Case('hex', body_hexoct, params={'which': 'hex'}))
    cs.append(Case('oct', body_hexoct, params={'which': 'oct'}))
    return cs
