"""C25 -- Random-access files behave as arrays of fixed-length records.

Real code: RandomFile.get / put / _set_record_pos / lof / loc / eof, FieldFile.set_buffer /
get_buffer, Locks.try_record_access (no foreign locks held).
"""
from symx.runner import Case
from symx import seqs
from .common import *

ORACLE = ('the file as a byte list: PUT of record r writes the buffer at offset (r-1)*reclen after '
          'zero-filling any gap, GET returns the reclen bytes at that offset padded with zeros past the '
          'end, LOF = length, LOC = last record accessed')
BOUNDS = {'file': 'initially any length 0..2*reclen+1 bytes of symbolic content (also lengths that are not a '
                  'multiple of the record length)', 'record length': '1..3 bytes (one case each)',
          'history': '2-3 operations (quick) / 3-4 (thorough), each PUT or GET (symbolic choice) with '
                     'symbolic record number 1..6 or omitted (next record) and symbolic buffer contents',
          'outside': 'record numbers given as Single/Double values (Files._check_pos uses Python floats), '
                     'numbers above 6, several files, FIELD variables (the buffer is accessed directly)'}
ASSUMPTIONS = ['z3 decides the formulas', 'symx models validated per path',
               'the file handle is a symx SymIO in the symbolic run and io.BytesIO in the concrete run']


class Field(object):
    def __init__(self, D, n):
        self._buf = getattr(D, 'bytearray', bytearray)(n)
        self._mv = getattr(D, 'memoryview', memoryview)

    def view_buffer(self):
        return self._mv(self._buf)


def body(h):
    reclen = h.params['reclen']
    nops = h.params['ops']
    D = h.P.basic.devices.diskfiles._module()
    # initial file: any length 0 .. 2*reclen+1 bytes (so also lengths that are not a multiple of the
    # record length, as when a file is reopened with another LEN)
    maxlen = 2 * reclen + 1
    len0 = h.concretize(h.int('len0', 0, maxlen), 20)
    init = h.bytes('init', maxlen)
    data0 = list(init)[:len0]
    if h.symbolic:
        fh = seqs.SymIO(seqs.mk_bytes(data0))
    else:
        import io
        fh = io.BytesIO(bytes(data0))
    locks = D.Locks()
    locks.open_file(b'DATA.DAT', 1, b'R', b'', b'')
    field = Field(D, 128)
    f = D.RandomFile(fh, 1, field, reclen, locks)
    # reference model: the file as a byte list
    ref = list(data0)
    recpos = 0                      # 0-based next record
    obs = []
    for k in range(nops):
        is_put = h.concretize(h.int('op%d' % k, 0, 1))
        pos = h.concretize(h.int('pos%d' % k, 0, 6), 10)     # 0: omitted
        arg = pos if pos else None
        target = pos if pos else recpos + 1
        off = (target - 1) * reclen
        if is_put:
            data = h.bytes('data%d' % k, reclen)
            f._field_file.set_buffer(data)
            res = h.call(f.put, arg)
            h.require('put-%d-ok' % k, res[0] == 'ok')
            if off > len(ref):
                ref.extend([0] * (off - len(ref)))
            ref[off:off + reclen] = list(data)
        else:
            res = h.call(f.get, arg)
            h.require('get-%d-ok' % k, res[0] == 'ok')
            got = list(f._field_file.get_buffer())
            want = ref[off:off + reclen]
            want = want + [0] * (reclen - len(want))
            h.require('get-%d-returns-last-put' % k, bytes_eq(got, want))
            obs.append(got)
        recpos = target
        h.require('loc-%d' % k, f.loc() == recpos)
        h.require('lof-%d' % k, f.lof() == len(ref))
    content = list(fh.getvalue())
    h.require('file-content', bytes_eq(content, ref))
    obs.append(content)
    return obs


def cases(tier):
    if tier == 'thorough':
        plan = {1: 4, 2: 4, 3: 3}
    else:
        plan = {1: 2, 2: 3, 3: 2}
    return [Case('records-len%d' % r, body, params={'reclen': r, 'ops': k}, max_paths=800000,
                 timeout_s=5000) for r, k in plan.items()]
