"""C25 -- Random-access files behave as arrays of fixed-length records.

Real code: RandomFile.get / put / _set_record_pos / lof / loc / eof, FieldFile.set_buffer /
get_buffer, Locks.try_record_access (no foreign locks held).
"""
from symx.runner import Case
from symx import seqs
from .common import *

ORACLE = ('a map record number -> bytes plus "highest record written": GET returns the last PUT of '
          'that record (zeros for records never written), LOF = record length * highest record, LOC = '
          'last record accessed; the file bytes are the concatenation of the records')
BOUNDS = {'file': 'initially 0..2 records of symbolic content', 'record length': '1..3 bytes (one case each)',
          'history': '3 operations (quick) / 4 (thorough), each PUT or GET (symbolic choice) with '
                     'symbolic record number 1..6 or omitted (next record) and symbolic buffer contents',
          'outside': 'record numbers given as Single/Double values (Files._check_pos uses Python floats), '
                     'numbers above 6, several files, FIELD variables (the buffer is accessed directly)'}
ASSUMPTIONS = ['z3 decides the formulas', 'symx models validated per path',
               'the file handle is a symx SymIO in the symbolic run and io.BytesIO in the concrete run']


class Field(object):
    def __init__(self, D, n):
        self._buf = getattr(D, 'bytearray', bytearray)(n)
        self._mv = getattr(D, 'memoryview', memoryview)

    def view_buffer(self):
        return self._mv(self._buf)


def body(h):
    reclen = h.params['reclen']
    nops = h.params['ops']
    D = h.P.basic.devices.diskfiles._module()
    nrec0 = h.concretize(h.int('nrec0', 0, 2))
    init = h.bytes('init', 2 * reclen)
    init_items = list(init)[:nrec0 * reclen]
    if h.symbolic:
        fh = seqs.SymIO(seqs.mk_bytes(init_items))
    else:
        import io
        fh = io.BytesIO(bytes(init_items))
    locks = D.Locks()
    locks.open_file(b'DATA.DAT', 1, b'R', b'', b'')
    field = Field(D, 128)
    f = D.RandomFile(fh, 1, field, reclen, locks)
    # reference model
    model = {}
    for r in range(nrec0):
        model[r + 1] = init_items[r * reclen:(r + 1) * reclen]
    highest = nrec0
    recpos = 0                      # 0-based next record
    obs = []
    for k in range(nops):
        is_put = h.concretize(h.int('op%d' % k, 0, 1))
        pos = h.concretize(h.int('pos%d' % k, 0, 6), 10)     # 0: omitted
        arg = pos if pos else None
        target = pos if pos else recpos + 1
        if is_put:
            data = h.bytes('data%d' % k, reclen)
            f._field_file.set_buffer(data)
            res = h.call(f.put, arg)
            h.require('put-%d-ok' % k, res[0] == 'ok')
            model[target] = list(data)
            highest = max(highest, target)
        else:
            res = h.call(f.get, arg)
            h.require('get-%d-ok' % k, res[0] == 'ok')
            got = list(f._field_file.get_buffer())
            want = model.get(target, [0] * reclen)
            h.require('get-%d-returns-last-put' % k, bytes_eq(got, want))
            obs.append(got)
        recpos = target
        h.require('loc-%d' % k, f.loc() == recpos)
        h.require('lof-%d' % k, f.lof() == reclen * highest)
    # the file is the concatenation of the records
    content = list(fh.getvalue())
    want = []
    for r in range(1, highest + 1):
        want += model.get(r, [0] * reclen)
    h.require('file-content', bytes_eq(content, want))
    obs.append(content)
    return obs


def cases(tier):
    ops = 4 if tier == 'thorough' else 3
    return [Case('records-len%d' % r, body, params={'reclen': r, 'ops': ops}, max_paths=400000,
                 timeout_s=3000) for r in (1, 2, 3)]
