"""C24 -- Sequential files return what was written (device level).

Real code: Files.write_ (formatting of WRITE#), TextFile.write / write_line / close / read /
read_one / read_line / eof / lof, TextFileBase.write / peek / read, InputMixin.input_entry /
_skip_whitespace, Values.from_repr / to_repr for integers.
"""
from symx.runner import Case
from symx import seqs
from .common import *

ORACLE = ('WRITE# of strings and integers followed by INPUT# returns the same strings / integers; PRINT# of '
          'lines followed by LINE INPUT# returns the same lines; EOF is false before the last item and true '
          'after it; LOF is the number of bytes written (with the end-of-file byte that CLOSE adds); a file '
          'opened for APPEND holds the old content followed by the new')
BOUNDS = {'WRITE#/INPUT# strings': '2 strings of length 0..2 (quick) / 0..3 (thorough), every byte symbolic except '
                                   'the quote, NUL and the end-of-file byte 1A (the property excludes them)',
          'WRITE#/INPUT# integers': '2 integers, every value 0..32767 each; every negative value followed by 7',
          'PRINT#/LINE INPUT#': '2 lines of length 0..3, every byte except CR, LF and 1A',
          'long fields': 'one field of 253, 254 or 255 bytes (each >= 65: no separator bytes) followed by a field of 0..1 bytes',
          'APPEND': 'old content of 0..3 symbolic bytes (no 1A), one line appended, everything read back',
          'file handle': 'symx SymIO in the symbolic run, io.BytesIO in the concrete run',
          'outside': 'floats (decimal conversion, C07/C08), the disk device layer '
                     '(host files, CR/LF options, stripping of the end-of-file byte on APPEND in disk.py), '
                     'OPEN/CLOSE statements (the TextFile objects are constructed directly), WIDTH on files'}
ASSUMPTIONS = ['z3 decides the formulas', 'symx models validated per path']

STR, INT = b'$', b'%'
# Integer.from_str tests `set(valstr) - set(DIGITS)` for emptiness: one membership formula (see C17)
EG = {'basic.values.numbers': {'set': seqs.sx_lazyset}}


def _fh(h, data=b''):
    if h.symbolic:
        return seqs.SymIO(seqs.mk_bytes(list(data)))
    f = _KeepIO()
    f.write(bytes(list(data)))
    f.seek(0)
    return f


import io as _io


class _KeepIO(_io.BytesIO):
    """the host file of the concrete run: CLOSE leaves the bytes readable"""

    def close(self):
        pass


class _FakeFiles(object):
    """the part of Files that write_ uses"""
    scrn_file = None

    def __init__(self, f):
        self._f = f

    def get(self, num, mode=b'IOAR', not_open=None):
        return self._f


def _open(h, fh, mode, number=1):
    D = h.P.basic.devices.diskfiles._module()
    locks = D.Locks()
    locks.open_file(b'DATA.TXT', number, mode, b'', b'')
    return D.TextFile(fh, b'D', number, mode, locks)


def _content(fh):
    return list(fh.getvalue())


def _reopen(h, fh, mode):
    fh.seek(0)
    return _open(h, fh, mode)


def _sym_len_bytes(h, name, maxlen, banned):
    n = h.concretize(h.int(name + '_len', 0, maxlen), maxlen + 2)
    bs = h.bytes(name, maxlen)
    items = list(bs)[:n]
    for b in items:
        h.assume(s_and(*[b != x for x in banned]))
    if h.symbolic:
        return seqs.mk_bytes(items), items
    return bytes(items), items


def body_write_strings(h):
    F = h.P.basic.devices.files._module()
    vals = mk_values_s(h)
    maxlen = h.params['maxlen']
    s1, i1 = _sym_len_bytes(h, 's', maxlen, (0x22, 0, 0x1a))
    s2, i2 = _sym_len_bytes(h, 't', maxlen, (0x22, 0, 0x1a))
    fh = _fh(h)
    out = _open(h, fh, b'O')
    N = h.P.basic.values.numbers._module()
    one = N.Integer(None, vals).from_int(1)
    res = h.call(F.Files.write_, _FakeFiles(out), iter([one, mk_str(h, vals, s1), mk_str(h, vals, s2)]))
    h.require('write-accepted', res[0] == 'ok', res)
    out.close()
    data = _content(fh)
    want = [0x22] + i1 + [0x22, 0x2c, 0x22] + i2 + [0x22, 13, 10, 0x1a]
    h.require('file-bytes', s_and(len(data) == len(want), bytes_eq(data, want)), data)
    inp = _reopen(h, fh, b'I')
    h.require('lof-is-byte-count', inp.lof() == len(want))
    h.require('not-eof-at-start', s_not(inp.eof()))
    r1 = h.call(inp.input_entry, STR, False)
    h.require('first-read-ok', r1[0] == 'ok', r1)
    h.require('first-string-back', s_and(len(r1[1][0]) == len(i1), bytes_eq(r1[1][0], i1)), r1[1][0])
    h.require('not-eof-before-last', s_not(inp.eof()))
    r2 = h.call(inp.input_entry, STR, False)
    h.require('second-read-ok', r2[0] == 'ok', r2)
    h.require('second-string-back', s_and(len(r2[1][0]) == len(i2), bytes_eq(r2[1][0], i2)), r2[1][0])
    h.require('eof-after-last', inp.eof())
    r3 = h.call(inp.input_entry, STR, False)
    h.require('input-past-end', r3[0] != 'ok', r3)
    return [data, list(r1[1][0]), list(r2[1][0])]


def body_write_ints(h):
    F = h.P.basic.devices.files._module()
    vals = mk_values_s(h)
    a, b = h.bytes('a', 2), h.bytes('b', 2)
    if h.params['sign'] == 'nonneg':
        h.assume(s_and(a[1] < 128, b[1] < 128))
    else:
        # a negative number is re-read through the floating-point parser ("-" is not a digit)
        h.assume(s_and(a[1] >= 128, b[1] == 0, b[0] == 7))
    fh = _fh(h)
    out = _open(h, fh, b'O')
    one = mk_num(h, vals, bytes([1, 0]))
    res = h.call(F.Files.write_, _FakeFiles(out), iter([one, mk_num(h, vals, a), mk_num(h, vals, b)]))
    h.require('write-accepted', res[0] == 'ok', res)
    out.close()
    inp = _reopen(h, fh, b'I')
    size = len(_content(fh))
    h.require('lof-is-byte-count', inp.lof() == size)
    got = []
    for k, raw in enumerate((a, b)):
        h.require('not-eof-before-item-%d' % k, s_not(inp.eof()))
        r = h.call(inp.input_entry, INT, False)
        h.require('read-%d-ok' % k, r[0] == 'ok', r)
        # as Implementation._input_file does: parse, then convert to the variable's type on assignment
        v = vals.from_repr(r[1][0], allow_nonnum=True, typechar=INT)
        v = h.P.basic.values.values._module().to_type(INT, v)
        h.require('integer-%d-back' % k, s_and(type(v).__name__ == 'Integer', s16(raw_of(v)) == s16(raw)), raw_of(v))
        got.append(raw_of(v))
    h.require('eof-after-last', inp.eof())
    return [got]


def body_lines(h):
    maxlen = h.params['maxlen']
    l1, i1 = _sym_len_bytes(h, 's', maxlen, (13, 10, 0x1a))
    l2, i2 = _sym_len_bytes(h, 't', maxlen, (13, 10, 0x1a))
    fh = _fh(h)
    out = _open(h, fh, b'O')
    out.write_line(l1)
    out.write_line(l2)
    out.close()
    data = _content(fh)
    want = i1 + [13, 10] + i2 + [13, 10, 0x1a]
    h.require('file-bytes', s_and(len(data) == len(want), bytes_eq(data, want)), data)
    inp = _reopen(h, fh, b'I')
    h.require('lof-is-byte-count', inp.lof() == len(want))
    h.require('not-eof-at-start', s_not(inp.eof()))
    r1, c1 = inp.read_line()
    h.require('first-line-back', s_and(len(r1) == len(i1), bytes_eq(r1, i1), c1 == b'\r'), r1)
    h.require('not-eof-before-last', s_not(inp.eof()))
    r2, c2 = inp.read_line()
    h.require('second-line-back', s_and(len(r2) == len(i2), bytes_eq(r2, i2), c2 == b'\r'), r2)
    h.require('eof-after-last', inp.eof())
    r3, c3 = inp.read_line()
    h.require('nothing-after-end', s_and(len(r3) == 0, s_not(c3)), [r3, c3])
    return [data, list(r1), list(r2)]


def body_append(h):
    old, iold = _sym_len_bytes(h, 'o', 3, (0x1a,))
    new, inew = _sym_len_bytes(h, 'n', 2, (13, 10, 0x1a))
    fh = _fh(h, iold)
    out = _open(h, fh, b'A')
    h.require('append-never-eof', s_not(out.eof()))
    out.write_line(new)
    h.require('lof-while-appending', out.lof() == len(iold) + len(inew) + 2)
    out.close()
    data = _content(fh)
    want = iold + inew + [13, 10, 0x1a]
    h.require('old-content-then-new', s_and(len(data) == len(want), bytes_eq(data, want)), data)
    return [data]


def body_write_long(h):
    """a field of 253..255 characters (letters and graphics only: no separator bytes) and a short one"""
    F = h.P.basic.devices.files._module()
    vals = mk_values_s(h)
    n = h.params['n']
    s1 = h.bytes('s', n)
    for b in list(s1):
        h.assume(b >= 65)
    s2, i2 = _sym_len_bytes(h, 't', 1, (0x22, 0, 0x1a))
    i1 = list(s1)
    h.fact('field_of_255', n == 255)
    fh = _fh(h)
    out = _open(h, fh, b'O')
    one = mk_num(h, vals, bytes([1, 0]))
    res = h.call(F.Files.write_, _FakeFiles(out), iter([one, mk_str(h, vals, s1), mk_str(h, vals, s2)]))
    h.require('write-accepted', res[0] == 'ok', res)
    out.close()
    inp = _reopen(h, fh, b'I')
    r1 = h.call(inp.input_entry, STR, False)
    h.require('first-read-ok', r1[0] == 'ok', r1)
    h.require('long-string-back', s_and(len(r1[1][0]) == n, bytes_eq(r1[1][0], i1)), len(r1[1][0]))
    h.require('not-eof-after-long-field', s_not(inp.eof()))
    r2 = h.call(inp.input_entry, STR, False)
    h.require('item-after-long-field-read', r2[0] == 'ok', r2)
    h.require('item-after-long-field-back', s_and(len(r2[1][0]) == len(i2), bytes_eq(r2[1][0], i2)), r2[1][0])
    h.require('eof-after-item-after-long-field', inp.eof())
    return [len(r1[1][0]), list(r2[1][0])]


def cases(tier):
    m = 3 if tier == 'thorough' else 2
    return [
        Case('write-input-strings', body_write_strings, params={'maxlen': m}, timeout_s=3000, max_paths=200000),
        Case('write-input-integers', body_write_ints, params={'sign': 'nonneg'}, timeout_s=3000, max_paths=200000, extra_globals=EG),
        Case('write-input-negative', body_write_ints, params={'sign': 'neg'}, timeout_s=3000, max_paths=200000, extra_globals=EG),
        Case('print-line-input', body_lines, params={'maxlen': 3 if tier == 'thorough' else 2}, timeout_s=3000,
             max_paths=200000),
        Case('append', body_append, timeout_s=1000),
    ] + [Case('write-input-long-%d' % n, body_write_long, params={'n': n}, timeout_s=1800) for n in (253, 254, 255)] + [
    ]
