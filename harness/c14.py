"""C14 -- RENUM renumbers lines and every reference to them consistently (symbolic RENUM arguments).

Real code: Interpreter.renum_ and Program.renum on the stored program of a whole real interpreter
(program entered line by line through Implementation.execute), CodeStream.skip_to_read,
Program.get_line_number; the dict displays of program.py are lifted to association lists with symbolic
key equality (SymDict) so that the new line numbers stay symbolic in Program.line_numbers.
"""
from symx.runner import Case
from .common import *
from . import session

ORACLE = ('RENUM new,old,step is accepted iff step >= 1, new is above every line below old, and the last new '
          'number is <= 65529; then the i-th line at or above old gets new+i*step, lines below old keep their '
          'numbers, every line-number reference (GOTO, GOSUB, THEN, ELSE, ON ERROR GOTO, RESTORE, RESUME, '
          'ON..GOTO) holds the new number of the line it named, a reference to a missing line is kept and '
          'reported once, ON ERROR GOTO 0 stays 0, Program.line_numbers maps the new numbers to the same '
          'positions, and the active error handler and event trap follow their lines; a rejected RENUM raises '
          'Illegal function call and changes nothing')
BOUNDS = {'program': 'one seven-line template with every kind of reference named above and one missing target, typed in numeric order and (one case) out of order',
          'arguments': 'new, old in 0..65529 and step in 0..65529, all symbolic (also omitted arguments: defaults)',
          'traps': 'error handler line and KEY(1) trap line each none / a line below / inside the renumbered range '
                   '(one case per combination)',
          'outside': 'other programs, running the renumbered program (line numbers would be symbolic), '
                     'RENUM with "." arguments, ERL comparisons, AUTO/EDIT interplay'}
ASSUMPTIONS = ['z3 decides the formulas', 'symx models validated per path',
               'the console that receives "Undefined line" reports is a recorder stub']

PROGRAM = [b'10 ON ERROR GOTO 60: GOTO 30',
           b'20 GOSUB 40: GOTO 90',
           b'30 IF A% THEN 20 ELSE 50',
           b'40 RETURN',
           b'50 ON ERROR GOTO 0: RESTORE 40: ON A% GOTO 10,20,30',
           b'60 RESUME 30',
           b'70 END']
LINES = [10, 20, 30, 40, 50, 60, 70]


class _Console(object):
    def __init__(self):
        self.lines = []

    def write_line(self, s=b''):
        self.lines.append(s)

    def write(self, s):
        self.lines.append(s)


def _scan(code):
    """[(position of the 2-byte operand, old target)] for every line-number reference, and
    {line: position of its 2-byte number}; code is the concrete bytecode before RENUM"""
    refs, heads = [], {}
    p = 0
    while True:
        assert code[p] == 0
        if code[p + 1] == 0 and code[p + 2] == 0:
            break
        num = code[p + 3] + 256 * code[p + 4]
        heads[num] = p + 3
        p += 5
        while code[p] != 0:
            if code[p] == 0x0e:
                refs.append((p + 1, code[p + 1] + 256 * code[p + 2], num))
                p += 3
            else:
                assert code[p] not in (0x0b, 0x0c, 0x0d, 0x0f, 0x1c, 0x1d, 0x1f, 0x22), code[p]
                p += 1
    return refs, heads


def body(h):
    impl = session.mk_impl(h)
    # (the line dictionary keeps insertion order: lines typed out of numeric order are a different state)
    order = [4, 0, 6, 2, 1, 5, 3] if h.params.get('shuffled') else range(len(PROGRAM))
    for k in order:
        impl.execute(PROGRAM[k])
    impl.execute(b'A%=0')
    prog = impl.program
    code0 = bytes(prog.bytecode.getvalue())
    refs, heads = _scan(code0)
    assert sorted(heads) == LINES and len(refs) == 12, (heads, refs)
    pos0 = dict((l, prog.line_numbers[l]) for l in LINES)
    err_line, trap_line = h.params['err'], h.params['trap']
    if err_line:
        impl.interpreter.on_error = err_line
    key1 = impl.basic_events.key[0]
    if trap_line:
        key1.set_jump(trap_line)
    console = _Console()
    impl.interpreter._console = console
    form = h.params['form']
    new = h.int('new', 0, 65529) if form in ('all', 'new', 'new-old') else None
    old = h.int('old', 0, 65529) if form in ('all', 'new-old') else None
    step = h.int('step', 0, 65529) if form == 'all' else None
    res = h.call(impl.interpreter.renum_, (new, old, step))
    N = 10 if new is None else new
    O = 0 if old is None else old
    S = 10 if step is None else step
    # reference
    moved = [s_not(l < O) for l in LINES]                      # which lines are renumbered
    index = []                                                 # rank among the renumbered lines
    count = 0
    for m in moved:
        index.append(count)
        count = count + ite(m, 1, 0)
    newnum = dict((l, ite(moved[i], N + index[i] * S, l)) for i, l in enumerate(LINES))
    below_max = 0
    any_below = False
    for i, l in enumerate(LINES):
        below_max = ite(moved[i], below_max, l)
        any_below = s_or(any_below, s_not(moved[i]))
    last_new = N + (count - 1) * S
    accepted = s_and(S >= 1, s_or(s_not(any_below), N > below_max), s_or(count == 0, last_new <= 65529))
    h.require('only-basic-errors', res[0] in ('ok', 'err'), res)
    if res[0] != 'ok':
        h.require('rejected-only-when-it-must-be', s_not(accepted), res)
        h.require('illegal-function-call', res[0] == 'err' and res[1] == IFC, res)
        h.require('rejected-renum-changes-nothing', bytes_eq(list(prog.bytecode.getvalue()), list(code0)))
        return [res[0]]
    h.require('accepted-only-when-allowed', accepted)
    code = list(prog.bytecode.getvalue())
    h.require('same-length', len(code) == len(code0))
    for l in LINES:
        p = heads[l]
        h.require('line-%d-number' % l, code[p] + 256 * code[p + 1] == newnum[l], [code[p], code[p + 1]])
    for p, target, inline in refs:
        want = newnum[target] if target in newnum else target
        h.require('reference-to-%d-in-line-%d' % (target, inline), code[p] + 256 * code[p + 1] == want,
                  [code[p], code[p + 1]])
    # everything else is untouched
    touched = set()
    for p in list(heads.values()) + [r[0] for r in refs]:
        touched.update((p, p + 1))
    h.require('other-bytes-untouched', all(code[i] == code0[i] for i in range(len(code0)) if i not in touched))
    # the line dictionary
    for l in LINES:
        got = h.call(prog.line_numbers.__getitem__, newnum[l])
        h.require('dictionary-entry-for-line-%d' % l, got[0] == 'ok' and got[1] == pos0[l], got)
    h.require('dictionary-size', len(prog.line_numbers) == len(LINES) + 1)
    # the missing reference is reported once, with the new number of the line it stands in
    h.require('missing-line-reported-once', len(console.lines) == 1, len(console.lines))
    if len(console.lines) == 1:
        msg = console.lines[0]
        h.require('report-names-the-missing-line', bytes(msg[:21]) == b'Undefined line 90 in ', bytes(msg[:21]))
    # traps follow their lines
    if err_line:
        h.require('error-handler-follows-its-line', impl.interpreter.on_error == newnum[err_line],
                  impl.interpreter.on_error)
    if trap_line:
        h.require('event-trap-follows-its-line', key1.gosub == newnum[trap_line], key1.gosub)
    return ['ok']


def cases(tier):
    cs = []
    for form in ('all', 'new-old', 'new', 'none'):
        for err in (0, 10, 60):
            for trap in (0, 20, 40):
                if tier != 'thorough' and form != 'all' and (err, trap) not in ((0, 0), (60, 40)):
                    continue
                cs.append(Case('renum-%s-err%d-trap%d' % (form, err, trap), body,
                               params={'form': form, 'err': err, 'trap': trap},
                               symdict=['basic.program'], timeout_s=1800, max_paths=20000, backend='INT'))
    cs.append(Case('renum-all-typed-out-of-order', body, params={'form': 'all', 'err': 60, 'trap': 20, 'shuffled': True},
                   symdict=['basic.program'], timeout_s=1800, max_paths=20000, backend='INT'))
    return cs
