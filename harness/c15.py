"""C15 -- Saved programs load back identically: the protection cipher is a bijection.

Real code: converter.protect.protect / unprotect (through a byte stream that holds symbolic bytes).
Claimed here: the cipher sentence only (see DESIGN.md C15 for what is outside).
"""
from symx.runner import Case
from symx import seqs
from .common import *

ORACLE = 'unprotect(protect(s) + EOF) = s and protect(unprotect(s + EOF)) = s, byte for byte'
BOUNDS = {'stream': 'every byte string of length 0..L with L = 288 (two full periods of the 143-step '
                    'key schedule, so every (position mod 143, byte value) pair occurs twice), plus '
                    'lengths 0, 1, 142, 143, 144 separately; longer strings repeat the same schedule',
          'outside': 'SAVE/LOAD through Program and devices, ASCII format, the command-line converter '
                     '(file/tokeniser machinery not encoded)'}
ASSUMPTIONS = ['z3 decides the formulas', 'symx models validated per path',
               'byte streams are symx.seqs.SymIO objects in the symbolic run and io.BytesIO in the '
               'concrete run']


def _io(h, data=b''):
    if h.symbolic:
        return seqs.SymIO(data)
    import io
    return io.BytesIO(bytes(data))


def body_cipher(h):
    n = h.params['n']
    C = h.P.basic.converter
    data = h.bytes('s', n)
    enc = _io(h)
    last = C.protect(_io(h, data), enc) if n else b''
    encoded = enc.getvalue()
    h.require('encoded-length', len(encoded) == n)
    dec = _io(h)
    C.unprotect(_io(h, encoded + b'\x1a'), dec)
    h.require('decode-of-encode-is-identity', bytes_eq(list(dec.getvalue()), list(data)))
    # the other direction: any byte string is the encoding of exactly one plaintext
    dec2 = _io(h)
    C.unprotect(_io(h, data + b'\x1a'), dec2)
    plain = dec2.getvalue()
    enc2 = _io(h)
    if n:
        C.protect(_io(h, plain), enc2)
    h.require('encode-of-decode-is-identity', bytes_eq(list(enc2.getvalue()), list(data)))
    if n:
        h.require('protect-returns-last-plain-byte', bytes_eq(list(last), list(data)[-1:]))
    return [list(encoded)[:8], list(plain)[:8]]


def cases(tier):
    ns = [0, 1, 2, 142, 143, 144, 288]
    if tier == 'thorough':
        ns += [11, 13, 286, 429, 600]
    return [Case('cipher-%d' % n, body_cipher, params={'n': n}) for n in ns]
