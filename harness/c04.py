"""C04 -- Floating-point arithmetic stays within a fixed error of the exact result.

Real code: values.add/sub/mul/div, Float.iadd/isub/imul/idiv, _add_den, _div_den (if-converted),
_normalise, _denormalise, _bring_to_range, _check_limits, FloatErrorHandler.handle.
"""
from symx.runner import Case
from .common import *

ORACLE = ('exact integer arithmetic on mantissas shifted by their exponent bytes (units of '
          '2^-bias): X = mx << ex, Y = my << ey, R = mr << er; |R - (X +/- Y)| <= 2 << er for '
          '+/-; for * the exact product P = mx*my is compared at the result scale: '
          '|(mr << s) - P| < 1 << s with s = er - ex - ey + bias; for x / 2^k the quotient is exact')
BOUNDS = {'operands': 'thorough: all pairs of single bit patterns (2^64 pairs, every exponent difference) and '
                      'double pairs for 14 values/ranges of the exponent difference incl. both far regimes; quick: single precision only, + and - for the '
                      'exponent differences listed in the case names (all mantissas, signs, exponents)',
          'division': 'zero divisor and divisors that are powers of two (all 255 exponents x both '
                      'signs) for every dividend; the general quotient bound needs loop-invariant '
                      'VCs for the restoring divider and is NOT claimed (see DESIGN.md)',
          'outside': '^ and transcendental functions (C maths library); soft error handling that '
                     'prints to a console (the handler is run without console and raises)'}
ASSUMPTIONS = ['z3/cvc5 decide the formulas', 'symx models validated per path',
               'multiplication: the product is first abstracted to a fresh variable in the product '
               'interval, counterexamples are re-decided with the exact bit-vector product']

IFC = {'basic.values.numbers': ['_div_den']}


def _mant(raw):
    """(zero, neg, e, m) with m the integer mantissa including the assumed bit"""
    raw = list(raw)
    nb = 8 * (len(raw) - 1)
    m = 0
    for k in range(len(raw) - 1):
        m = m + raw[k] * (1 << (8 * k))
    neg = raw[-2] >= 128
    m = ite(neg, m, m + (1 << (nb - 1)))
    return raw[-1] == 0, neg, raw[-1], m


def body_addsub(h):
    """|result - exact| <= 2 ulp(result).  Oracle in two regimes of d = |ea - eb|:
    d <= D: exact integer sum in units of 2^(emin - bias - nb - 2) (all shifts bounded);
    d >  D: exact = L + tau with L the larger operand and 0 < |tau| < 2^-8 ulp(L)."""
    t = h.params['type']
    op = h.params['op']
    n = TYPES[t]
    nb = 8 * (n - 1)
    D = nb + 8
    G = nb + 2                      # guard shift so that results with smaller exponents fit
    a, b = h.bytes('a', n), h.bytes('b', n)
    vals = mk_values(h)
    V = h.P.basic.values.values
    za, na, ea, ma = _mant(a)
    zb, nb_, eb, mb = _mant(b)
    if op == 'sub':
        nb_ = s_not(nb_)
    # exponent difference: this case covers ea - eb in [dlo, dhi]; inside the near regime it is
    # made concrete (one fork per value) so that every shift in code and oracle is concrete
    dlo, dhi = h.params['d']
    dab = ea - eb
    h.assume(s_and(dab >= dlo, dab <= dhi))
    if dlo >= -D and dhi <= D:
        dab = h.concretize(dab, 600)
    A, B = mk_num(h, vals, a), mk_num(h, vals, b)
    res = h.call(getattr(V, op), A, B)
    maxm = (1 << nb) - 1
    if res[0] == 'ok':
        r = raw_of(res[1])
        h.require('type', len(r) == n)
        zr, nr, er, mr = _mant(r)
        obs = r
    else:
        h.require('error-is-overflow', res[0] == 'err' and res[1] == OVERFLOW)
        obs = [res[0], res[1]]
    # regime split (forks the path: keeps every query narrow)
    if za or zb:
        # one operand is a zero encoding: exact result is the other operand
        oz, on, oe, om = (zb, nb_, eb, mb) if za else (za, na, ea, ma)
        if res[0] != 'ok':
            h.require('overflow-justified', False)
        else:
            h.require('x+0', ite(oz, zr, s_and(s_not(zr), er == oe, mr == om, s_iff(nr, on))))
        return obs
    if s_or(ea > eb, s_and(ea == eb, ma >= mb)):      # forks: which operand is the larger
        el, ml, nl, es, ms, ns = ea, ma, na, eb, mb, nb_
    else:
        el, ml, nl, es, ms, ns = eb, mb, nb_, ea, ma, na
    d = el - es
    if d <= D:
        sh = d + G
        S = ite(nl, -(ml << sh), ml << sh) + ite(ns, -(ms << G), ms << G)
        absS = ite(S < 0, -S, S)
        if res[0] != 'ok':
            # |exact| >= largest number:  |S| * 2^(es - G) >= maxm * 2^255
            k = 255 - es + G
            kk = ite(k > D + 2 * G + 4, D + 2 * G + 4, k)
            h.require('overflow-justified', s_and(k <= D + 2 * G + 4, absS >= (maxm << kk)))
            return obs
        # result in the same units: mr << (er - es + G), needs er - es + G >= 0
        # zero result only below the smallest positive number 2^(nb - bias):
        # |S| * 2^(es - G) < 2^nb
        z = nb + G - es
        zz = ite(z < 0, 0, z)
        if zr:          # forks: a zero result has no exponent to relate to
            h.require('zero-only-below-smallest', s_or(S == 0, s_and(z >= 0, absS < (1 << zz))))
            return obs
        # (on one path of the real code the normalisation shift is fixed, so q is usually a
        # single value: make it concrete to keep every shift in the query concrete)
        q = h.concretize(er - es + G, 400)
        qq = ite(q < 0, 0, ite(q > D + G + 3, D + G + 3, q))
        R = ite(nr, -(mr << qq), mr << qq)
        err = R - S
        abserr = ite(err < 0, -err, err)
        h.require('within-2-ulp', s_and(q >= 0, q <= D + G + 3, abserr <= (2 << qq)))
        h.require('sign', s_or(S == 0, s_iff(nr, S < 0)))
        return obs
    # d > D: exact = L + tau, tau has the sign of the smaller operand, 0 < |tau| < 2^-8 ulp(L)
    tau_pos = s_not(ns)
    if res[0] != 'ok':
        h.require('overflow-justified', s_and(el == 255, ml == maxm, s_iff(tau_pos, s_not(nl))))
        return obs
    # in half-ulps of L:  Delta = R - L,  u = 2^(er - el)
    if zr:
        h.require('result-exponent-near-larger', False)
        return obs
    de = h.concretize(er - el, 600)          # usually one value per path: keeps the shifts concrete
    h.require('result-exponent-near-larger', -1 <= de <= 1)
    dd = 0 if de < -1 else (2 if de > 1 else de + 1)
    R2 = ite(nr, -(mr << dd), mr << dd)
    L2 = ite(nl, -(ml << 1), ml << 1)
    delta = R2 - L2
    twou = 2 << dd                   # 2u in half-ulps of L
    h.require('within-2-ulp', ite(tau_pos, s_and(delta > -twou, delta <= twou),
                                  s_and(delta >= -twou, delta < twou)))
    return obs


def body_mul(h):
    t = h.params['type']
    n = TYPES[t]
    nb = 8 * (n - 1)
    bias = 128 + nb
    a, b = h.bytes('a', n), h.bytes('b', n)
    vals = mk_values(h)
    V = h.P.basic.values.values
    A, B = mk_num(h, vals, a), mk_num(h, vals, b)
    res = h.call(V.mul, A, B)
    za, na, ea, ma = _mant(a)
    zb, nb_, eb, mb = _mant(b)
    zero_exact = s_or(za, zb)
    # the exact product.  The denormalised mantissas are read through the real _denormalise so
    # that the product term is the one the code multiplies (shared abstraction variable); that
    # they are the reference mantissas shifted by 8 is an obligation of its own.
    da, db = A._denormalise(), B._denormalise()
    h.require('denormalise-is-mantissa<<8', s_and(da[1] == ma << 8, db[1] == mb << 8,
                                                  da[0] == ea, db[0] == eb))
    P = da[1] * db[1]                 # = ma * mb * 2^16
    esum = ea + eb - bias - 16        # P * 2^(esum - bias) is the exact magnitude
    w = 2 * nb + 16                   # P < 2^w
    if res[0] != 'ok':
        h.require('error-is-overflow', res[0] == 'err' and res[1] == OVERFLOW)
        # |exact| >= max  <=>  P * 2^esum >= (2^nb - 1) * 2^255
        k = esum - 255
        kk = ite(k < -w, -w, ite(k > 0, 0, k))
        h.require('overflow-justified', s_and(s_not(zero_exact),
                                              s_or(k > 0, s_and(k >= -w, (P >> (-kk)) >= ((1 << nb) - 1)))))
        return [res[0], res[1]]
    r = raw_of(res[1])
    h.require('type', len(r) == n)
    zr, nr, er, mr = _mant(r)
    # mr * 2^(er - bias) ~ P * 2^(esum - bias)  =>  mr * 2^s ~ P  with s = er - esum
    s = er - esum
    ss = ite(s < 0, 0, ite(s > w, w, s))
    diff = (mr << ss) - P
    absd = ite(diff < 0, -diff, diff)
    h.require('below-1-ulp', s_or(zr, s_and(s >= 0, s <= w, absd < (1 << ss))))
    h.require('sign', s_or(zr, s_iff(nr, s_not(s_iff(na, nb_)))))
    h.require('exact-zero', s_implies(zero_exact, zr))
    # zero for non-zero operands only below the smallest positive number 2^(nb - bias):
    # P * 2^esum < 2^nb
    e2 = ite(esum < -w, -w, ite(esum > 0, 0, esum))
    h.require('zero-only-below-smallest', s_or(s_not(zr), zero_exact,
                                               s_and(esum <= 0, (P >> (-e2)) < (1 << nb))))
    return r


def body_div0(h):
    t = h.params['type']
    n = TYPES[t]
    a, z = h.bytes('a', n), h.bytes('z', n)
    h.assume(z[n - 1] == 0)
    vals = mk_values(h)
    V = h.P.basic.values.values
    N = h.P.basic.values.numbers
    A = mk_num(h, vals, a)
    res = h.call(V.div, A, mk_num(h, vals, z))
    h.require('division-by-zero-raised', res[0] == 'err' and res[1] == DIV0)
    # the signed maximum is what a soft handler continues with: ask Float.idiv directly
    C = mk_num(h, vals, a)
    payload = None
    try:
        C.idiv(mk_num(h, vals, z))
    except ZeroDivisionError as e:
        payload = e.args[0]
    ok = payload is not None and type(payload).__name__ == type(C).__name__
    if ok:
        p = raw_of(payload)
        neg = a[n - 2] >= 128
        want = [255] * n
        h.require('signed-maximum', s_and(*([p[i] == 255 for i in range(n) if i != n - 2] +
                                            [p[n - 2] == ite(neg, 255, 127)])))
        return [res[0], raw_of(res[1]) if res[0] == 'ok' else res[1], p]
    h.require('payload-is-float', False)
    return [res[0], raw_of(res[1]) if res[0] == 'ok' else res[1]]


def body_divpow2(h):
    """x / (+-2^k): the quotient is exact (mantissa unchanged) unless it under/overflows"""
    t = h.params['type']
    n = TYPES[t]
    a = h.bytes('a', n)
    lo, hi = h.params['eb']
    eb = h.int('eb', lo, hi)
    sb = h.bool('sb')
    eb = h.concretize(eb, 300)
    vals = mk_values(h)
    V = h.P.basic.values.values
    b = bytes([0] * (n - 2) + [0x80 if sb else 0, eb])
    res = h.call(V.div, mk_num(h, vals, a), mk_num(h, vals, b))
    za, na, ea, ma = _mant(a)
    # divisor = +-2^(eb - 129); exact quotient exponent byte
    eq = ea - (eb - 129)
    if res[0] != 'ok':
        h.require('error-is-overflow', res[0] == 'err' and res[1] == OVERFLOW)
        h.require('overflow-justified', s_and(s_not(za), eq > 255))
        return [res[0], res[1]]
    r = raw_of(res[1])
    zr, nr, er, mr = _mant(r)
    h.require('exact-quotient', ite(s_or(za, eq < 1), zr,
                                    s_and(s_not(zr), eq <= 255, er == eq, mr == ma,
                                          s_iff(nr, s_not(s_iff(na, sb))))))
    return r


def cases(tier):
    cs = []
    thorough = tier == 'thorough'
    for t in ('s', 'd') if thorough else ('s',):
        D = 8 * (TYPES[t] - 1) + 8
        ranges = [(-255, -D - 1), (D + 1, 255)]
        step = 4 if t == 's' else 2
        lo = -D
        while lo <= D:
            hi = lo if -4 <= lo <= 3 else min(lo + step - 1, D, -5 if lo < -4 else D)
            ranges.append((lo, hi))
            lo = hi + 1
        if thorough and t == 'd':
            # doubles: both far regimes and a spread of near exponent differences (every d for
            # doubles is ~130 cases x 2 operators of several minutes each; not run routinely)
            keepd = {(-255, -D - 1), (D + 1, 255), (D, D), (-D, -D + 1), (-4, -4), (-1, -1), (0, 0),
                     (1, 1), (2, 2), (8, 9), (-34, -33), (32, 33), (56, 57), (-58, -57)}
            ranges = [r for r in ranges if r in keepd]
        if not thorough:
            # quick: both far regimes and a spread of near exponent differences
            keep = {(-255, -D - 1), (D + 1, 255), (D, D), (-D, -D + 3), (28, 31), (-4, -4), (-1, -1),
                    (0, 0), (1, 1), (2, 2), (8, 11), (-12, -9), (24, 27)}
            ranges = [r for r in ranges if r in keep]
        for op in ('add', 'sub'):
            for (lo, hi) in ranges:
                cs.append(Case('%s-%s-d%+d..%+d' % (op, t, lo, hi), body_addsub,
                               params={'type': t, 'op': op, 'd': (lo, hi)},
                               timeout_s=3000, query_timeout_ms=300000))
    for t in ('s', 'd'):
        if t == 's' or thorough:
            cs.append(Case('mul-' + t, body_mul, params={'type': t}, abstract_products=True,
                           timeout_s=3000, query_timeout_ms=300000))
        cs.append(Case('div0-' + t, body_div0, params={'type': t}))
    # x / 2^k for every exponent byte of the divisor, split for parallelism
    chunks = 16 if thorough else 8
    for t in ('s', 'd') if thorough else ('s',):
        step = 256 // chunks
        for c in range(chunks):
            lo, hi = max(1, c * step), c * step + step - 1
            if not thorough:
                # quick: the 4 lowest and 4 highest exponents of each chunk
                pass
            cs.append(Case('divpow2-%s-%d' % (t, c), body_divpow2, ifconvert=IFC,
                           params={'type': t, 'eb': (lo, hi)}, max_fanout=600, timeout_s=3000))
    return cs
