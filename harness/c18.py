"""C18 -- Expressions evaluate with GW-BASIC precedence and associativity (integer operators).

Real code: the whole interpreter evaluating R%=A% op1 B% op2 C% (and NOT / parenthesised
variants) for every pair of integer-valued operators: ExpressionParser.parse / _drain,
operators.PRECEDENCE, values.intdiv / mod_ / and_ / ... / eq / lt / gt.
"""
from symx.runner import Case
from .common import *
from . import session
from .c19 import _setup, _geti

ORACLE = ('an independent precedence-climbing evaluator over the table \\ > MOD > relational > NOT > AND > '
          'OR > XOR > EQV > IMP with left-to-right grouping, whose leaf operations are exact integer '
          'definitions (truncating division, remainder with the sign of the dividend, bitwise on the 16-bit '
          'pattern, relational -1/0); Division by zero / Overflow when the reference operation has no result')
BOUNDS = {'expressions': 'A% op1 B% op2 C% for ordered pairs of the 11 operators \\ MOD = < > <> AND OR XOR EQV '
                         'IMP (quick: all 81 pairs without \\ and MOD plus 5 pairs with one of them; thorough: all 117 pairs with '
                         'at most one of \\ and MOD; expressions with two division-type operators only with B% in -7..7 and C% in -3..3), '
                         'plus NOT in front of each operand position and one parenthesised form for a sample',
          'operands': 'every 16-bit value of A%, B%, C% (symbolic)',
          'outside': '^ * / + - and unary minus (they promote to floating point: their rounding is C04/C05, and '
                     'their paths through the float code multiply by thousands), strings, deeper trees'}
ASSUMPTIONS = ['z3/cvc5 decide the formulas', 'symx models validated per path']

OPS = ['\\', 'MOD', '=', '<', '>', '<>', 'AND', 'OR', 'XOR', 'EQV', 'IMP']
PREC = {'\\': 10, 'MOD': 9, '=': 7, '<': 7, '>': 7, '<>': 7, 'AND': 5, 'OR': 4, 'XOR': 3, 'EQV': 2, 'IMP': 1}


class Err(Exception):
    def __init__(self, code):
        self.code = code


def _u(v):
    return ite(v < 0, v + 65536, v)


def _s(u):
    return ite(u >= 32768, u - 65536, u)


def apply(op, a, b, guard):
    """reference operation on exact integers; guard collects (condition, error code) pairs"""
    if op in ('\\', 'MOD'):
        guard.append((b == 0, DIV0))
        bb = ite(b == 0, 1, b)
        aa, ab = ite(a < 0, -a, a), ite(bb < 0, -bb, bb)
        q = aa // ab
        r = aa % ab
        if op == '\\':
            res = ite((a < 0) != (bb < 0), -q, q)
            guard.append((s_and(b != 0, res > 32767), OVERFLOW))
            return res
        return ite(a < 0, -r, r)
    if op == '=':
        return ite(a == b, -1, 0)
    if op == '<>':
        return ite(a != b, -1, 0)
    if op == '<':
        return ite(a < b, -1, 0)
    if op == '>':
        return ite(a > b, -1, 0)
    ua, ub = _u(a), _u(b)
    if op == 'AND':
        return _s(ua & ub)
    if op == 'OR':
        return _s(ua | ub)
    if op == 'XOR':
        return _s(ua ^ ub)
    if op == 'EQV':
        return _s(65535 - (ua ^ ub))
    if op == 'IMP':
        return _s((65535 - ua) | ub)
    raise ValueError(op)


def body_two(h):
    o1, o2 = h.params['ops']
    form = h.params.get('form', 'plain')
    texts = {'plain': 'R%%=A%% %s B%% %s C%%', 'paren': 'R%%=A%% %s (B%% %s C%%)',
             'not1': 'R%%=NOT A%% %s B%% %s C%%', 'not2': 'R%%=A%% %s NOT B%% %s C%%'}
    expr = (texts[form] % (o1, o2)).encode()
    prog = [b'10 ON ERROR GOTO 100', b'20 ' + expr + b': E%=1: END', b'100 C9%=ERR: RESUME 110', b'110 END']
    impl = _setup(h, prog, [b'A%', b'B%', b'C%', b'R%', b'E%', b'C9%'])
    raws = {}
    for n in (b'A%', b'B%', b'C%'):
        raws[n] = h.bytes(n[:1].decode().lower(), 2)
        if h.params.get('small') and n != b'A%':
            # two division-type operators: the divisors are enumerated (forked) from a small range,
            # so that each path divides by constants
            lim = h.params['small'][n]
            v = s16(raws[n])
            h.assume(s_and(v >= -lim, v <= lim))
            v = h.concretize(v, 2 * lim + 2)
            raws[n] = bytes([v % 256, (v // 256) % 256])
        session.poke_int(h, impl, n, raws[n])
    impl.execute(b'GOTO 10')
    A, B, C = s16(raws[b'A%']), s16(raws[b'B%']), s16(raws[b'C%'])
    guard = []
    nt = lambda v: -v - 1
    if form == 'paren':
        inner = apply(o2, B, C, guard)
        want = apply(o1, A, inner, guard)
    else:
        a, b = A, B
        p1, p2 = PREC[o1], PREC[o2]
        NOTP = 6
        if form == 'not1':
            # NOT binds weaker than relational and arithmetic operators, stronger than AND..IMP:
            # NOT A op1 B ... applies to the whole sub-expression of operators stronger than NOT
            if p1 > NOTP and p2 > NOTP:
                # NOT applies to the whole of A op1 B op2 C, grouped by the operators' own precedence
                if p2 > p1:
                    want = nt(apply(o1, a, apply(o2, b, C, guard), guard))
                else:
                    want = nt(apply(o2, apply(o1, a, b, guard), C, guard))
            elif p1 > NOTP:
                want = apply(o2, nt(apply(o1, a, b, guard)), C, guard)
            elif p2 > p1:
                want = apply(o1, nt(a), apply(o2, b, C, guard), guard)
            else:
                want = apply(o2, apply(o1, nt(a), b, guard), C, guard)
        elif form == 'not2':
            # A op1 NOT B op2 C : NOT takes everything to its right that binds stronger than NOT
            if p2 > NOTP:
                want = apply(o1, a, nt(apply(o2, b, C, guard)), guard)
            elif p1 >= p2:
                want = apply(o2, apply(o1, a, nt(b), guard), C, guard)
            else:
                want = apply(o1, a, apply(o2, nt(b), C, guard), guard)
        elif p2 > p1:
            want = apply(o1, a, apply(o2, b, C, guard), guard)
        else:
            want = apply(o2, apply(o1, a, b, guard), C, guard)
    R, E, C9 = _geti(impl, b'R%'), _geti(impl, b'E%'), _geti(impl, b'C9%')
    anyerr = s_or(*[g for g, _ in guard]) if guard else False
    h.require('value-of-operator-tree', s_implies(s_not(anyerr), s_and(R == want, E == 1, C9 == 0)))
    h.require('error-when-an-operation-has-no-result', s_implies(anyerr, s_and(E == 0, s_or(C9 == DIV0, C9 == OVERFLOW))))
    h.require('no-untrapped-error', impl.interpreter.error_num in (0, DIV0, OVERFLOW))
    return [R, E, C9]


BITWISE = ('AND', 'OR', 'XOR', 'EQV', 'IMP')


def _backend(o1, o2, form):
    return 'BV'


DIVPAIRS = [('\\', 'AND'), ('AND', '\\'), ('MOD', 'OR'), ('=', '\\'), ('\\', '=')]


def cases(tier):
    cs = []
    nodiv = [o for o in OPS if o not in ('\\', 'MOD')]
    pairs = [(a, b) for a in nodiv for b in nodiv] + DIVPAIRS
    if tier == 'thorough':
        # every pair with at most one division-type operator (two of them in one expression --
        # \ \, \ MOD, MOD \, MOD MOD -- compose two dividers and were not decided within 40 min)
        pairs = [(a, b) for a in OPS for b in OPS if not (a in ('\\', 'MOD') and b in ('\\', 'MOD'))]
    for o1, o2 in pairs:
        cs.append(Case('plain %s %s' % (o1, o2), body_two, backend='BV',
                       params={'ops': (o1, o2)}, timeout_s=3000, query_timeout_ms=600000))
    # two division-type operators, second and third operand in -7..7 / -3..3 (every A%)
    for o1, o2 in [('MOD', '\\'), ('\\', 'MOD'), ('MOD', 'MOD'), ('\\', '\\')]:
        cs.append(Case('small %s %s' % (o1, o2), body_two, backend='BV',
                       params={'ops': (o1, o2), 'small': {b'B%': 7, b'C%': 3}}, timeout_s=3000,
                       max_fanout=200, query_timeout_ms=600000))
    sample = [('\\', 'AND'), ('AND', '\\'), ('=', 'OR'), ('OR', '='),
              ('IMP', 'EQV'), ('XOR', 'AND'), ('<', 'AND')]
    for o1, o2 in (sample if tier != 'thorough' else pairs):
        for form in ('paren', 'not1', 'not2'):
            cs.append(Case('%s %s %s' % (form, o1, o2), body_two, backend='BV',
                           params={'ops': (o1, o2), 'form': form}, timeout_s=3000, query_timeout_ms=600000))
    return cs
