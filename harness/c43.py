"""C43 -- Session API values round-trip (integers, byte strings, arrays of both, integer expressions).

Real code: Implementation.set_variable / get_variable / evaluate, Values.from_value / to_value,
Integer.from_value, String.from_value (through the real string space of the whole interpreter),
Arrays.from_list / to_list / set / get / allocate.
"""
from symx.runner import Case
from .common import *
from . import session
from .c18 import apply

ORACLE = ('get_variable returns exactly the Python value that set_variable was given (int / bytes / nested '
          'lists of them); evaluate returns the integer that an independent exact definition of the operator '
          'gives, which is also what the assignment R%=<expr> stores')
BOUNDS = {'integers': 'every n in -32768..32767 (symbolic) into A%, and the booleans True/False (-1/0)',
          'strings': 'byte strings (the level below the codepage translation) of length 0,1,2,3,254,255 with '
                     'every byte value symbolic, set twice in a row so that the second value replaces the first',
          'arrays': 'integer arrays of shapes [3], [2][2], [2][2][2] and a string array [2] of 2-byte strings, '
                    'after DIM to exactly that shape, OPTION BASE 0 and 1; every element symbolic',
          'evaluate': 'A% op B% for the 11 integer operators of C18, every 16-bit A%, B% (B% <> 0 for \\ and MOD: '
                      'division by zero continues with the float machine infinity)',
          'outside': 'the as_type conversions of get_variable (they dispatch on type(), which the engine does not model), floats (Single/Double.from_value run on Python floats and struct packing of IEEE values, '
                     'which the engine does not encode), unicode strings through the codepage tables '
                     '(Session layer), arrays that were not dimensioned to the list shape (they read back padded '
                     'to the default size 10), expressions printing non-integers'}
ASSUMPTIONS = ['z3 decides the formulas', 'symx models validated per path']


def body_int(h):
    impl = session.mk_impl(h)
    n = h.int('n', -32768, 32767)
    res = h.call(impl.set_variable, b'a%', n)
    h.require('set-accepted', res[0] == 'ok', res)
    got = impl.get_variable(b'A%')
    h.require('int-roundtrip', got == n, got)
    raw = session.peek_raw(impl, b'A%')
    h.require('memory-holds-value', s16(raw) == n, raw)
    # a second variable must not disturb the first
    m = h.int('m', -32768, 32767)
    impl.set_variable(b'B%', m)
    h.require('independent', s_and(impl.get_variable(b'A%') == n, impl.get_variable(b'B%') == m))
    return [got, raw]


def body_bool(h):
    impl = session.mk_impl(h)
    b = h.bool('b')
    impl.set_variable(b'A%', True if b else False)
    got = impl.get_variable(b'A%')
    h.require('bool-is-minus-one-or-zero', got == (-1 if b else 0), got)
    return [got]


def body_str(h):
    impl = session.mk_impl(h)
    n1, n2 = h.params['lens']
    s1, s2 = h.bytes('s', n1), h.bytes('t', n2)
    impl.set_variable(b'A$', s1)
    got1 = impl.get_variable(b'A$')
    h.require('string-roundtrip', s_and(len(got1) == n1, bytes_eq(got1, s1)), got1)
    impl.set_variable(b'B$', s2)
    kept = impl.get_variable(b'A$')
    h.require('first-string-kept-after-second-is-set', s_and(len(kept) == n1, bytes_eq(kept, s1)), kept)
    impl.set_variable(b'A$', s2)
    impl.set_variable(b'A$', s1)
    got2, got3 = impl.get_variable(b'A$'), impl.get_variable(b'B$')
    h.require('string-replaced', s_and(len(got2) == n1, bytes_eq(got2, s1)), got2)
    h.require('other-string-kept', s_and(len(got3) == n2, bytes_eq(got3, s2)), got3)
    # visible to BASIC as the same string
    impl.execute(b'L%=LEN(A$): IF L%>0 THEN F%=ASC(A$)')
    h.require('basic-sees-length', s16(session.peek_raw(impl, b'L%')) == n1)
    if n1:
        h.require('basic-sees-first', s16(session.peek_raw(impl, b'F%')) == s1[0])
    return [list(got1), list(got2), list(got3)]


def _nest(flat, shape):
    if len(shape) == 1:
        return list(flat[:shape[0]])
    step = 1
    for d in shape[1:]:
        step *= d
    return [_nest(flat[i * step:(i + 1) * step], shape[1:]) for i in range(shape[0])]


def _flat(nested):
    if not isinstance(nested, list):
        return [nested]
    out = []
    for x in nested:
        out.extend(_flat(x))
    return out


def _shape(nested):
    s = []
    while isinstance(nested, list):
        s.append(len(nested))
        nested = nested[0]
    return s


def body_array(h):
    shape, base = h.params['shape'], h.params['base']
    impl = session.mk_impl(h)
    if base:
        impl.execute(b'OPTION BASE 1')
    dims = b','.join(b'%d' % (d - 1 + base) for d in shape)
    impl.execute(b'DIM Q%(' + dims + b'), Z%(1)')
    count = 1
    for d in shape:
        count *= d
    vals = [h.int('v%d' % i, -32768, 32767) for i in range(count)]
    nested = _nest(vals, shape)
    res = h.call(impl.set_variable, b'Q%()', nested)
    h.require('set-accepted', res[0] == 'ok', res)
    res = h.call(impl.get_variable, b'q%()')
    h.require('get-accepted', res[0] == 'ok', res)
    if res[0] != 'ok':
        return [res[0]]
    got = res[1]
    h.require('same-shape', _shape(got) == list(shape), _shape(got))
    flat = _flat(got)
    h.require('array-roundtrip', s_and(len(flat) == count, *[g == v for g, v in zip(flat, vals)]), flat)
    # BASIC sees element (last index fastest in the Python list = last subscript)
    first = b','.join(b'%d' % base for _ in shape)
    last = b','.join(b'%d' % (d - 1 + base) for d in shape)
    impl.execute(b'F%=Q%(' + first + b'): L%=Q%(' + last + b')')
    h.require('basic-sees-first', s16(session.peek_raw(impl, b'F%')) == vals[0])
    h.require('basic-sees-last', s16(session.peek_raw(impl, b'L%')) == vals[-1])
    z = impl.get_variable(b'Z%()')
    h.require('neighbour-array-untouched', s_and(*[x == 0 for x in z]), z)
    return [flat]


def body_strarray(h):
    base = h.params['base']
    impl = session.mk_impl(h)
    if base:
        impl.execute(b'OPTION BASE 1')
    impl.execute(b'DIM Q$(%d)' % (1 + base))
    s1, s2 = h.bytes('s', 2), h.bytes('t', 2)
    impl.set_variable(b'Q$()', [s1, s2])
    res = h.call(impl.get_variable, b'Q$()')
    h.require('get-accepted', res[0] == 'ok', res)
    if res[0] != 'ok':
        return [res[0]]
    got = res[1]
    h.require('string-array-roundtrip',
              s_and(len(got) == 2, len(got[0]) == 2, len(got[1]) == 2, bytes_eq(got[0], s1), bytes_eq(got[1], s2)),
              [list(g) for g in got])
    return [[list(g) for g in got]]


def body_eval(h):
    op = h.params['op']
    impl = session.mk_impl(h)
    impl.execute(b'A%=0:B%=0:R%=0')
    a, b = h.bytes('a', 2), h.bytes('b', 2)
    session.poke_int(h, impl, b'A%', a)
    session.poke_int(h, impl, b'B%', b)
    A, B = s16(a), s16(b)
    if op in ('\\', 'MOD'):
        # division by zero is a soft error: evaluate() carries on with machine infinity (a float)
        h.assume(B != 0)
    guard = []
    want = apply(op, A, B, guard)
    bad = s_or(*[g[0] for g in guard]) if guard else False
    expr = b'A% ' + op.encode() + b' B%'
    got = impl.evaluate(expr)
    # evaluate() reports BASIC errors on the console and returns None
    if got is None:
        h.require('evaluate-fails-only-when-operation-has-no-result', bad)
        return [None]
    h.require('evaluate-succeeds-only-when-defined', s_not(bad))
    h.require('evaluate-value', got == want, got)
    impl.execute(b'R%=' + expr)
    h.require('same-as-assignment', s16(session.peek_raw(impl, b'R%')) == got)
    return [got]


def cases(tier):
    cs = [Case('int-scalar', body_int, timeout_s=300), Case('bool-scalar', body_bool, timeout_s=300)]
    lens = [(0, 1), (1, 0), (2, 3), (3, 2)] + ([(255, 1), (254, 255)] if tier == 'thorough' else [(255, 1)])
    for l in lens:
        cs.append(Case('string-%d-%d' % l, body_str, params={'lens': l}, timeout_s=600))
    shapes = [(3,), (2, 2), (2, 2, 2)] + ([(4, 3), (1, 1, 1), (3, 2, 2)] if tier == 'thorough' else [])
    for sh in shapes:
        for base in (0, 1):
            cs.append(Case('array-%s-base%d' % ('x'.join(map(str, sh)), base), body_array,
                           params={'shape': sh, 'base': base}, timeout_s=600))
    for base in (0, 1):
        cs.append(Case('string-array-base%d' % base, body_strarray, params={'base': base}, timeout_s=300))
    from .c18 import OPS
    for op in OPS:
        cs.append(Case('evaluate-%s' % op.replace('\\', 'idiv').replace('<>', 'ne').replace('<', 'lt')
                       .replace('>', 'gt').replace('=', 'eq'), body_eval, params={'op': op}, timeout_s=600, backend='BV'))
    return cs
