"""C34 -- Video memory reflects and controls the screen content (address arithmetic).

Real code: GraphicsMemoryMapper._walk_memory / _coord_ok, CGAMemoryMapper._get_coords,
EGAMemoryMapper._get_coords, the mode table modes._MODE_INFO (read from /repo on every run).
Decided: block access (BSAVE/BLOAD, multi-byte PEEK/POKE) addresses exactly the pixels that
byte-at-a-time access addresses.
"""
from symx.runner import Case
from .common import *

ORACLE = ('the single-byte decoder and its validity test are compared with an independent decoder '
          'written from the mode table row (page size, bank interleave, bytes per row, planar or packed); '
          'byte j of a block starting at addr must be mapped by the block walk to the same (page, row, '
          'first pixel) that the single-byte address decoder _get_coords gives for addr + j, and must be '
          'skipped exactly when that decoder says the byte backs no pixel')
BOUNDS = {'modes': 'every graphics mode row of modes._MODE_INFO with a CGA- or EGA-class memory mapper',
          'address': 'symbolic start address over the whole video window (segment base - 64 .. base + '
                     '128 KiB + 64)', 'block length': 'symbolic 1 .. 3 rows + 2 bytes from any start address; plus blocks that start at the '
                          'first byte of page 0 and end within 2 rows after a bank / page / page+bank / '
                          'page+2 banks boundary (whole-screen BSAVE/BLOAD), checked for the last 2 rows',
          'byte index': 'symbolic 0 .. length-1',
          'outside': 'the pixel packing done by ByteMatrix (packed/frompacked), EGA plane masks, '
                     'text-mode mapper, Tandy screen 6 (two-byte interleaved planes), '
                     'Memory._get_memory_block splitting'}
ASSUMPTIONS = ['z3/cvc5 decide the integer formulas', 'symx models validated per path']


def _modes(h):
    M = h.P.basic.display.modes
    out = {}
    for name, info in M._MODE_INFO.items():
        d = dict(info)
        cls = d.pop('layout')
        if cls is M.TextMode:
            continue
        out[name] = (cls, d)
    return M, out


def mode_names():
    import importlib, sys
    sys.path.insert(0, '/repo') if '/repo' not in sys.path else None
    from symx import lift
    lift.install()
    M = lift.pristine('basic.display.modes')
    return [n for n, i in M._MODE_INFO.items()
            if i['layout'] is not M.TextMode and i['layout'] is not M.Tandy6Mode]


def body_walk(h):
    M, modes = _modes(h)
    cls, d = modes[h.params['mode']]
    mode = cls(name=h.params['mode'], video_mem_size=h.params['vmem'], **d)
    mm = mode.memorymap
    base = mm._video_segment * 0x10
    row = mm._bytes_per_row
    addr = h.int('addr', base - 64, base + 0x20000 + 64)
    n = h.int('n', 1, 3 * row + 2)
    j = h.int('j', 0, 3 * row + 1)
    h.assume(j < n)
    p0 = mm._get_coords(addr)
    h.fact('start_backed', mm._coord_ok(*p0))
    bank = mm._bank_size
    h.fact('later_bank', (addr + j - base) // bank != (addr - base) // bank)
    h.fact('start_at_bank_start', (addr - base) % bank == 0)
    segs = list(mm._walk_memory(addr, n))
    P, X, Y = mm._get_coords(addr + j)
    valid = mm._coord_ok(P, X, Y)
    covering = []
    agree = []
    for (pg, x, y, ofs, length) in segs:
        c = s_and(ofs <= j, j < ofs + length)
        covering.append(c)
        agree.append(s_implies(c, s_and(pg == P, y == Y, x + (j - ofs) * mm._ppb == X)))
    ncover = 0
    for c in covering:
        ncover = ncover + core.as_int(c)
    h.require('backed-byte-covered-exactly-once', s_implies(valid, ncover == 1))
    h.require('unbacked-byte-skipped', s_implies(s_not(valid), ncover == 0))
    h.require('block-walk-agrees-with-byte-decoder', s_and(*agree))
    h.require('segments-inside-block', s_and(*[s_and(ofs >= 0, length >= 0, ofs + length <= n)
                                               for (_, _, _, ofs, length) in segs]))
    return [[pg, x, y, ofs, length] for (pg, x, y, ofs, length) in segs]


def _reference(info, vmem, a_rel):
    """Independent decoder written from the mode table row: (page, x, y, valid) of a byte offset
    relative to the mapper's segment base."""
    w, hgt, bpp = info['width'], info['height'], info['bitsperpixel']
    il, bank = info['interleave_times'], info['bank_size']
    planar = info['layout'].__name__ == 'EGAMode'
    page_size = il * bank
    num_pages = min(info['max_pages'], vmem // page_size) if info['max_pages'] else vmem // page_size
    page = a_rel // page_size
    off = a_rel % page_size
    if planar:
        row_bytes = w // 8
        y = off // row_bytes
        x = (off % row_bytes) * 8
    else:
        row_bytes = w * bpp // 8
        b = off // bank
        inb = off % bank
        y = b + il * (inb // row_bytes)
        x = (inb % row_bytes) * 8 // bpp
    valid = s_and(page >= 0, page < num_pages, x >= 0, x < w, y >= 0, y < hgt)
    return page, x, y, valid


def body_reference(h):
    """the real byte decoder and validity test against the independent reference"""
    M, modes = _modes(h)
    cls, d = modes[h.params['mode']]
    info = dict(M._MODE_INFO[h.params['mode']])
    mode = cls(name=h.params['mode'], video_mem_size=h.params['vmem'], **d)
    mm = mode.memorymap
    base = mm._video_segment * 0x10
    segs = {'CGAMode': 0xb800, 'EGAMode': 0xa000}
    h.require('segment-base', base == segs[info['layout'].__name__] * 16)
    a = h.int('a', base - 64, base + 0x20000 + 64)
    pa = mm._get_coords(a)
    ok = mm._coord_ok(*pa)
    page, x, y, valid = _reference(info, h.params['vmem'], a - base)
    h.require('validity-matches-reference', s_iff(ok, valid))
    h.require('coordinates-match-reference', s_implies(valid, s_and(pa[0] == page, pa[1] == x, pa[2] == y)))
    return [list(pa), bool(ok)]


def body_walk_long(h):
    """whole-screen style blocks: start at the first byte of page 0, length around a bank / page
    boundary far into the block (BSAVE/BLOAD of one or two pages)"""
    M, modes = _modes(h)
    cls, d = modes[h.params['mode']]
    mode = cls(name=h.params['mode'], video_mem_size=h.params['vmem'], **d)
    mm = mode.memorymap
    base = mm._video_segment * 0x10
    row = mm._bytes_per_row
    n0 = h.params['n0'](mm)
    n = n0 + h.int('dn', 0, 2 * row)
    j = h.int('j', 0, n0 + 2 * row)
    h.assume(j < n)
    # the interesting bytes are the ones near the end of the block
    h.assume(j >= n0 - 2 * row)
    bank = mm._bank_size
    slack = (-bank) % row
    jb = j // bank
    h.fact('tail_just_after_bank_end', s_and(jb >= 1, n - jb * bank <= slack))
    segs = list(mm._walk_memory(base, n))
    P, X, Y = mm._get_coords(base + j)
    valid = mm._coord_ok(P, X, Y)
    ncover = 0
    agree = []
    for (pg, x, y, ofs, length) in segs:
        c = s_and(ofs <= j, j < ofs + length)
        ncover = ncover + core.as_int(c)
        agree.append(s_implies(c, s_and(pg == P, y == Y, x + (j - ofs) * mm._ppb == X)))
    h.require('backed-byte-covered-exactly-once', s_implies(valid, ncover == 1))
    h.require('unbacked-byte-skipped', s_implies(s_not(valid), ncover == 0))
    h.require('block-walk-agrees-with-byte-decoder', s_and(*agree))
    return [len(segs)]


LONG = {
    'bank': lambda mm: mm._bank_size,
    'page': lambda mm: mm._page_size,
    'page+bank': lambda mm: mm._page_size + mm._bank_size,
    'page+2banks': lambda mm: mm._page_size + 2 * mm._bank_size,
}


def body_coords(h):
    """the byte decoder itself: consecutive bytes of one row are consecutive pixels groups, rows of a
    bank are interleaved as the mode table says, and decoding is injective on backed bytes"""
    M, modes = _modes(h)
    cls, d = modes[h.params['mode']]
    mode = cls(name=h.params['mode'], video_mem_size=h.params['vmem'], **d)
    mm = mode.memorymap
    base = mm._video_segment * 0x10
    a = h.int('a', base, base + 0x20000)
    b = h.int('b', base, base + 0x20000)
    pa, pb = mm._get_coords(a), mm._get_coords(b)
    va, vb = mm._coord_ok(*pa), mm._coord_ok(*pb)
    same = s_and(pa[0] == pb[0], pa[1] == pb[1], pa[2] == pb[2])
    h.require('decoder-injective-on-backed-bytes', s_implies(s_and(va, vb, same), a == b))
    h.require('x-is-multiple-of-pixels-per-byte', s_implies(va, pa[1] % mm._ppb == 0))
    return [list(pa), list(pb)]


def cases(tier):
    cs = []
    for name in mode_names():
        for vmem in ([262144] if tier != 'thorough' else [16384, 32768, 262144]):
            tag = name if tier != 'thorough' else '%s-%dk' % (name, vmem // 1024)
            cs.append(Case('walk-' + tag, body_walk, backend='INT', params={'mode': name, 'vmem': vmem},
                           timeout_s=1500, max_decisions=400))
            cs.append(Case('decode-' + tag, body_coords, backend='INT',
                           params={'mode': name, 'vmem': vmem}))
            cs.append(Case('reference-' + tag, body_reference, backend='INT',
                           params={'mode': name, 'vmem': vmem}))
            for lname, fn in LONG.items():
                if tier != 'thorough' and name not in ('320x200x4', '320x200x16', '160x200x16'):
                    continue
                cs.append(Case('long-%s-%s' % (lname, tag), body_walk_long, backend='INT',
                               params={'mode': name, 'vmem': vmem, 'n0': fn}, timeout_s=1500,
                               max_decisions=3000))
    return cs
