#!/bin/bash
# Idempotent offline bootstrap of /verif/.venv
set -e
HERE="$(cd "$(dirname "$0")" && pwd)"
V="$HERE/.venv"
if [ -x "$V/bin/python" ] && "$V/bin/python" -c "import z3, jsonschema" 2>/dev/null; then
  exit 0
fi
(
  flock 9
  if [ -x "$V/bin/python" ] && "$V/bin/python" -c "import z3, jsonschema" 2>/dev/null; then exit 0; fi
  rm -rf "$V"
  /venv/bin/python -m venv "$V"
  SP="$V/lib/python3.12/site-packages"
  echo "import site; site.addsitedir('/venv/lib/python3.12/site-packages')" > "$SP/_venv_overlay.pth"
  "$V/bin/pip" install -q --no-index --find-links /opt/veriftools/wheels z3-solver jsonschema
) 9>"$HERE/.setup.lock"
